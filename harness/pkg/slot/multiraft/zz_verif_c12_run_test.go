package multiraft_test

import (
	"context"
	"encoding/json"
	"errors"
	"flag"
	"fmt"
	"math/rand"
	"os"
	"path/filepath"
	"sort"
	"strconv"
	"strings"
	"sync"
	"testing"
	"time"

	"github.com/WuKongIM/WuKongIM/pkg/slot/multiraft"
	"pgregory.net/rapid"
	"verif.local/kit"
)

// ---------------------------------------------------------------- generator

func verifC12GenLink(calm bool) *rapid.Generator[verifC12Link] {
	return rapid.Custom(func(t *rapid.T) verifC12Link {
		l := verifC12Link{DelayMinUS: 0, DelayMaxUS: rapid.SampledFrom([]int{100, 500, 2000, 6000}).Draw(t, "delayMax")}
		if calm {
			return l
		}
		switch rapid.IntRange(0, 3).Draw(t, "linkKind") {
		case 0: // lossy
			l.DropPermille = rapid.SampledFrom([]int{10, 50, 150, 300}).Draw(t, "drop")
		case 1: // duplicating + reordering
			l.DupPermille = rapid.SampledFrom([]int{20, 100, 300}).Draw(t, "dup")
			l.TailPermille = rapid.SampledFrom([]int{50, 200}).Draw(t, "tail")
			l.TailUS = rapid.SampledFrom([]int{5000, 20000, 40000}).Draw(t, "tailUS")
		case 2: // everything
			l.DropPermille = rapid.SampledFrom([]int{10, 60, 150}).Draw(t, "drop")
			l.DupPermille = rapid.SampledFrom([]int{20, 100}).Draw(t, "dup")
			l.TailPermille = rapid.SampledFrom([]int{50, 200}).Draw(t, "tail")
			l.TailUS = rapid.SampledFrom([]int{5000, 20000}).Draw(t, "tailUS")
		default: // slow
			l.DelayMinUS = rapid.SampledFrom([]int{500, 2000}).Draw(t, "delayMin")
			l.DelayMaxUS = l.DelayMinUS + rapid.SampledFrom([]int{1000, 8000}).Draw(t, "delaySpread")
		}
		return l
	})
}

func verifC12Subset(t *rapid.T, n, max int, label string) []int {
	k := rapid.IntRange(1, max).Draw(t, label+"N")
	perm := rapid.Permutation(verifC12Range(n)).Draw(t, label)
	out := append([]int(nil), perm[:k]...)
	sort.Ints(out)
	return out
}

func verifC12Range(n int) []int {
	out := make([]int, n)
	for i := range out {
		out[i] = i + 1
	}
	return out
}

// verifC12GenConfig draws one whole case: cluster shape, raft options,
// compaction threshold, state-machine flavour, workload and fault script.
func verifC12GenConfig(thorough, slow bool) *rapid.Generator[verifC12Config] {
	return rapid.Custom(func(t *rapid.T) verifC12Config {
		cfg := verifC12Config{Nodes: 3}
		if thorough {
			cfg.Nodes = rapid.SampledFrom([]int{3, 3, 5}).Draw(t, "nodes")
			switch rapid.IntRange(0, 5).Draw(t, "storage") {
			case 0, 1:
				cfg.Pebble = true
			case 2:
				cfg.Pebble, cfg.Kill = true, true
			case 3:
				cfg.Pebble, cfg.MemFS = true, true
			}
		} else if rapid.IntRange(0, 4).Draw(t, "storage") < 2 {
			// the quick tier runs the Pebble raftlog too, on an in-memory file system
			cfg.Pebble, cfg.MemFS = true, true
		}
		// VERIF_C12_FORCE (kill, pebble, five) pins a storage/shape class, for
		// mutation experiments and debugging
		force := os.Getenv("VERIF_C12_FORCE")
		if strings.Contains(force, "pebble") {
			cfg.Pebble = true
		}
		if strings.Contains(force, "kill") {
			cfg.Pebble, cfg.Kill, cfg.MemFS = true, true, false
		}
		if strings.Contains(force, "memfs") {
			cfg.Pebble, cfg.Kill, cfg.MemFS = true, false, true
		}
		if strings.Contains(force, "five") {
			cfg.Nodes = 5
		}
		cfg.Slots = rapid.IntRange(2, 4).Draw(t, "slots")
		cfg.TickMS = rapid.IntRange(2, 5).Draw(t, "tickMS")
		if slow {
			cfg.TickMS *= 3
		}
		cfg.ElectionTick = rapid.IntRange(8, 20).Draw(t, "electionTick")
		cfg.HeartbeatTick = rapid.IntRange(1, 2).Draw(t, "heartbeatTick")
		// production runs PreVote+CheckQuorum; other combinations are drawn less often
		cfg.PreVote = rapid.IntRange(0, 3).Draw(t, "prevote") != 0
		cfg.CheckQuorum = rapid.IntRange(0, 3).Draw(t, "checkQuorum") != 0
		cfg.Workers = rapid.IntRange(1, 4).Draw(t, "workers")
		cfg.Trigger = rapid.SampledFrom([]uint64{0, 100000, 100000, 2, 3, 5, 8, 16, 16, 40, 40, 120}).Draw(t, "trigger")
		cfg.SMKind = rapid.SampledFrom([]int{0, 1, 2, 2}).Draw(t, "smKind") // 2 = what the production FSM implements
		if cfg.Kill {
			// a power loss between Apply and MarkApplied re-applies on a state
			// machine without a durable applied index; that window is inherent
			// to the two-store design and closed by DurableAppliedStateMachine,
			// so power losses are only judged with that flavour
			cfg.SMKind = 2
		}
		cfg.MaxSizePerMsg = rapid.SampledFrom([]uint64{0, 0, 64, 256, 4096}).Draw(t, "maxSizePerMsg")
		cfg.MaxInflight = rapid.SampledFrom([]int{0, 1, 2, 8}).Draw(t, "maxInflight")
		cfg.MaxApplying = rapid.SampledFrom([]int{0, 0, 1, 4}).Draw(t, "maxApplying")
		cfg.Link = verifC12GenLink(rapid.IntRange(0, 3).Draw(t, "calm") == 0).Draw(t, "link")
		cfg.PerSlot = rapid.IntRange(150, 400).Draw(t, "perSlot") // cap; the workload runs as long as the script
		cfg.Window = rapid.SampledFrom([]int{1, 4, 16, 64}).Draw(t, "window")
		cfg.GapUS = rapid.SampledFrom([]int{400, 1000, 2500, 6000}).Draw(t, "gapUS")
		cfg.LeaderBias = rapid.SampledFrom([]int{60, 85, 100}).Draw(t, "leaderBias")
		cfg.Proposers = rapid.IntRange(1, 3).Draw(t, "proposers")
		cfg.Sticky = rapid.IntRange(0, 9).Draw(t, "sticky") < 7
		cfg.Seed = int64(rapid.Uint32().Draw(t, "netSeed")) + 1
		minority := (cfg.Nodes - 1) / 2
		nSteps := rapid.IntRange(6, 12).Draw(t, "nSteps")
		// most scripts hold one of the directed shapes at a drawn position; all
		// of them can also come up through the free draw of kinds
		directed, directedAt := "", -1
		if rapid.IntRange(0, 7).Draw(t, "directed") != 0 {
			directed = rapid.SampledFrom([]string{"staleLeader", "staleLeader", "voteCrash", "voteCrash", "crashWrite"}).Draw(t, "directedKind")
			directedAt = rapid.IntRange(0, nSteps-1).Draw(t, "directedAt")
		}
		restarts := 0
		for i := 0; i < nSteps; i++ {
			st := verifC12Step{PauseMS: rapid.SampledFrom([]int{20, 60, 120, 250}).Draw(t, "pause")}
			kind := rapid.SampledFrom([]string{"isolate", "isolate", "oneway", "split", "heal", "heal", "link", "restart", "restart", "restart", "transfer", "transfer", "compact", "pause", "isolateLeader", "isolateLeader", "restartLeader", "restartLeader", "addLearner", "removeLearner",
				"staleLeader", "crashWrite", "crashWrite", "voteCrash"}).Draw(t, "kind")
			if i == nSteps-2 && restarts == 0 {
				kind = "restart"
			}
			if i == directedAt {
				kind = directed
			}
			st.Kind = kind
			switch kind {
			case "isolate": // both directions, a minority
				st.Nodes = verifC12Subset(t, cfg.Nodes, minority, "isolated")
			case "oneway": // Nodes[0] cannot reach Nodes[1]
				p := rapid.Permutation(verifC12Range(cfg.Nodes)).Draw(t, "oneway")
				st.Nodes = []int{p[0], p[1]}
			case "split": // Nodes on one side, the rest on the other
				st.Nodes = verifC12Subset(t, cfg.Nodes, cfg.Nodes-1, "side")
			case "link":
				l := verifC12GenLink(false).Draw(t, "newLink")
				st.Link = &l
			case "restart":
				restarts++
				st.Nodes = verifC12Subset(t, cfg.Nodes, minority, "restarted")
				st.DownMS = rapid.SampledFrom([]int{0, 30, 120, 300}).Draw(t, "down")
				st.Unsynced = rapid.SampledFrom([]int{0, 0, 30, 100}).Draw(t, "unsynced")
			case "transfer":
				st.Slot = rapid.IntRange(1, cfg.Slots).Draw(t, "slot")
				st.Nodes = []int{rapid.IntRange(1, cfg.Nodes).Draw(t, "target")}
			case "compact":
				st.Slot = rapid.IntRange(1, cfg.Slots).Draw(t, "slot")
				st.Nodes = []int{rapid.IntRange(1, cfg.Nodes).Draw(t, "on")}
			case "addLearner", "removeLearner": // a learner id nobody runs: membership entries in the log, quorum unchanged
				st.Slot = rapid.IntRange(1, cfg.Slots).Draw(t, "slot")
			case "isolateLeader": // whoever leads Slot when the step runs
				st.Slot = rapid.IntRange(1, cfg.Slots).Draw(t, "slot")
			case "restartLeader":
				restarts++
				st.Slot = rapid.IntRange(1, cfg.Slots).Draw(t, "slot")
				st.DownMS = rapid.SampledFrom([]int{0, 30, 120, 300}).Draw(t, "down")
				st.Unsynced = rapid.SampledFrom([]int{0, 0, 30, 100}).Draw(t, "unsynced")
			case "staleLeader":
				// the leader of Slot is cut off while clients still hand it K
				// proposals; its successor takes M proposals; then the partition heals
				st.Slot = rapid.IntRange(1, cfg.Slots).Draw(t, "slot")
				st.K = rapid.IntRange(2, 6).Draw(t, "staleK")
				st.M = st.K + rapid.IntRange(1, 4).Draw(t, "staleM")
				st.OneWay = rapid.IntRange(0, 2).Draw(t, "staleOneWay") == 0
			case "crashWrite":
				// a minority (or the leader of Slot when Nodes is empty) is watched;
				// the first of them to perform the Nth storage write of the class
				// loses power there
				restarts++
				if rapid.IntRange(0, 2).Draw(t, "crashLeader") == 0 {
					st.Slot = rapid.IntRange(1, cfg.Slots).Draw(t, "slot")
				} else {
					st.Nodes = verifC12Subset(t, cfg.Nodes, minority, "crashed")
				}
				st.Class = rapid.SampledFrom([]string{"any", "any", "entries", "entries", "hardstate", "applied", "applied", "snapshot", "vote"}).Draw(t, "crashClass")
				st.Nth = rapid.IntRange(1, 12).Draw(t, "crashNth")
				st.Before = rapid.IntRange(0, 3).Draw(t, "crashBefore") != 0
				st.DownMS = rapid.SampledFrom([]int{0, 30, 120}).Draw(t, "down")
				st.Unsynced = rapid.SampledFrom([]int{0, 0, 30, 100}).Draw(t, "unsynced")
			case "voteCrash":
				// the leader of Slot is isolated; the first replica that is about to
				// record a vote for another candidate loses power at that write and
				// comes back on the old leader's side of a partition
				restarts++
				st.Slot = rapid.IntRange(1, cfg.Slots).Draw(t, "slot")
				st.Before = rapid.IntRange(0, 5).Draw(t, "crashBefore") != 0
				st.DownMS = rapid.SampledFrom([]int{0, 0, 30}).Draw(t, "down")
			}
			if slow {
				st.PauseMS *= 2
			}
			cfg.Steps = append(cfg.Steps, st)
			if kind == "isolateLeader" && rapid.IntRange(0, 9).Draw(t, "thenHeal") < 6 {
				// the deposed leader comes back while clients still talk to it
				cfg.Steps = append(cfg.Steps, verifC12Step{Kind: "heal", PauseMS: rapid.SampledFrom([]int{20, 60, 120}).Draw(t, "healPause")})
			}
		}
		return cfg
	})
}

// ---------------------------------------------------------------- one run

type verifC12Outcome struct {
	hist         *verifC12History
	machinery    string // harness/environment problem: not a verdict
	unsettled    string
	unresolved   int
	netSent      int64
	netDropped   int64
	netDuped     int64
	netBlocked   int64
	netSnaps     int64
	restartBusy  int // restarts begun while accepted proposals were unresolved
	leaderSeen   int // leader changes observed through Status by the proposers
	transferred  int
	manualCompax int
	pendingInfo  []string
	nudges       int
	confChanges  int
	staleSnaps   int
	staleSteps   int // staleLeader steps that found a leader to cut off
	crashArmed   int // crash points armed
	crashFired   int // crash points reached
	voteCrashes  int // voteCrash steps whose crash point was reached
	crashWhat    []string
	elapsed      time.Duration
}

func verifC12Run(cfg verifC12Config, settleLimit time.Duration) (out verifC12Outcome) {
	started := time.Now()
	dir := ""
	if cfg.Pebble {
		var cleanup func()
		dir, cleanup = kit.TempDir()
		defer cleanup()
	}
	c := verifC12NewCluster(cfg, dir)
	out.hist = c.hist
	ctx, cancel := context.WithCancel(context.Background())
	var wg sync.WaitGroup // proposers and future waiters
	stopProposers := make(chan struct{})
	var seenMu sync.Mutex

	shutdown := func() {
		for _, n := range c.nodes {
			if err := n.stop(); err != nil && out.machinery == "" {
				out.machinery = "close: " + err.Error()
			}
		}
		c.net.close()
		cancel()
		wg.Wait()
		out.netSent, out.netDropped, out.netDuped = c.net.sent.Load(), c.net.dropped.Load(), c.net.duped.Load()
		out.netBlocked, out.netSnaps = c.net.blockedDrops.Load(), c.net.snaps.Load()
		for _, n := range c.nodes {
			for _, m := range n.mem {
				if ms, ok := m.(*verifC12MemStore); ok {
					ms.mu.Lock()
					out.staleSnaps += ms.c12Stale
					ms.mu.Unlock()
				}
			}
		}
		out.elapsed = time.Since(started)
	}

	for _, n := range c.nodes {
		if err := n.start(); err != nil {
			out.machinery = err.Error()
			close(stopProposers)
			shutdown()
			return out
		}
	}

	// submit hands one proposal to a node like a client would and records what
	// becomes of it; done (may be nil) is called when the future resolved
	submit := func(target, slot int, id string, done func()) error {
		rt := c.nodes[target-1].runtime()
		if rt == nil {
			return multiraft.ErrRuntimeClosed
		}
		fut, err := rt.Propose(ctx, multiraft.SlotID(slot), verifC12Payload(id))
		if err != nil {
			c.hist.add(verifC12Event{Kind: "reject", Node: target, Slot: slot, ID: id, Err: err.Error()})
			return err
		}
		c.inflight.Add(1)
		c.pending.Store(id, target)
		wg.Add(1)
		go func() {
			defer wg.Done()
			res, err := fut.Wait(ctx)
			c.inflight.Add(-1)
			c.pending.Delete(id)
			if done != nil {
				done()
			}
			if err != nil {
				c.hist.add(verifC12Event{Kind: "fail", Node: target, Slot: slot, ID: id, Err: err.Error()})
				return
			}
			c.hist.add(verifC12Event{Kind: "ack", Node: target, Slot: slot, ID: id, Index: res.Index, Term: res.Term, Data: string(res.Data)})
		}()
		return nil
	}
	// burst: a client hands n proposals to one node back to back; returns the accepted ids
	burst := func(target, slot, n int, tag string) []string {
		var ids []string
		for i := 0; i < n; i++ {
			id := fmt.Sprintf("s%d-%s-n%d-%d", slot, tag, target, i)
			if submit(target, slot, id, nil) == nil {
				ids = append(ids, id)
			}
		}
		return ids
	}
	resolved := func(ids []string) bool {
		for _, id := range ids {
			if _, ok := c.pending.Load(id); ok {
				return false
			}
		}
		return true
	}
	tick := time.Duration(cfg.TickMS) * time.Millisecond
	election := tick * time.Duration(cfg.ElectionTick)
	isolate := func(a int) {
		for b := 1; b <= cfg.Nodes; b++ {
			if a != b {
				c.net.block(a, b)
				c.net.block(b, a)
			}
		}
	}
	// crashed: a node lost power at an armed storage write; bring it back
	revive := func(node, downMS int) {
		if err := c.nodes[node-1].reap(); err != nil && out.machinery == "" {
			out.machinery = "close: " + err.Error()
		}
		time.Sleep(time.Duration(downMS) * time.Millisecond)
		if err := c.nodes[node-1].start(); err != nil {
			c.startFailed(node, err, &out)
		}
	}

	// workload: one proposer per slot, unique payloads, bounded window
	for s := 1; s <= cfg.Slots*cfg.Proposers; s++ {
		wg.Add(1)
		go func(slot, proposer int) {
			defer wg.Done()
			rng := rand.New(rand.NewSource(cfg.Seed*31 + int64(slot) + int64(proposer)*1000))
			window := make(chan struct{}, cfg.Window)
			lastLeader, sticky := 0, 0
			accepted := 0
			for seq := 0; accepted < cfg.PerSlot; seq++ {
				select {
				case <-stopProposers:
					return
				default:
				}
				// a sticky client keeps using the node that last accepted its
				// proposal until that node refuses (a cached route)
				target := sticky
				if leader, _ := c.leaderOf(slot); leader != 0 && target == 0 {
					if lastLeader != 0 && leader != lastLeader {
						seenMu.Lock()
						out.leaderSeen++
						seenMu.Unlock()
					}
					lastLeader = leader
					if rng.Intn(100) < cfg.LeaderBias {
						target = leader
					}
				}
				if target == 0 {
					target = rng.Intn(cfg.Nodes) + 1
				}
				rt := c.nodes[target-1].runtime()
				if rt == nil {
					sticky = 0
					time.Sleep(time.Duration(cfg.TickMS) * time.Millisecond)
					continue
				}
				select {
				case window <- struct{}{}:
				case <-stopProposers:
					return
				}
				id := fmt.Sprintf("s%d-p%d-n%d-%d", slot, proposer, target, seq)
				if err := submit(target, slot, id, func() { <-window }); err != nil {
					<-window
					// not the leader / busy: give the cluster a moment
					sticky = 0
					time.Sleep(time.Duration(cfg.TickMS) * time.Millisecond)
					continue
				}
				if cfg.Sticky {
					sticky = target
				}
				accepted++
				time.Sleep(time.Duration(cfg.GapUS/2+rng.Intn(cfg.GapUS+1)) * time.Microsecond)
			}
		}((s-1)%cfg.Slots+1, (s-1)/cfg.Slots+1)
	}

	// fault script
	time.Sleep(time.Duration(cfg.TickMS*cfg.ElectionTick) * time.Millisecond)
	for stepNo, st := range cfg.Steps {
		switch st.Kind {
		case "isolateLeader", "restartLeader":
			leader, _ := c.leaderOf(st.Slot)
			if leader == 0 {
				leader = (st.Slot-1)%cfg.Nodes + 1
			}
			st.Nodes = []int{leader}
			st.Kind = strings.TrimSuffix(st.Kind, "Leader")
		}
		switch st.Kind {
		case "isolate":
			for _, a := range st.Nodes {
				for b := 1; b <= cfg.Nodes; b++ {
					if a != b {
						c.net.block(a, b)
						c.net.block(b, a)
					}
				}
			}
		case "oneway":
			c.net.block(st.Nodes[0], st.Nodes[1])
		case "split":
			side := map[int]bool{}
			for _, a := range st.Nodes {
				side[a] = true
			}
			for a := 1; a <= cfg.Nodes; a++ {
				for b := 1; b <= cfg.Nodes; b++ {
					if side[a] != side[b] {
						c.net.block(a, b)
					}
				}
			}
		case "heal":
			c.net.heal()
		case "link":
			c.net.setLink(*st.Link)
		case "restart":
			if c.inflight.Load() > 0 {
				out.restartBusy++
			}
			for i, a := range st.Nodes {
				var err error
				if cfg.Kill {
					err = c.nodes[a-1].kill(st.Unsynced, uint64(cfg.Seed)+uint64(stepNo*16+i))
				} else {
					err = c.nodes[a-1].stop()
				}
				if err != nil && out.machinery == "" {
					out.machinery = "close: " + err.Error()
				}
			}
			time.Sleep(time.Duration(st.DownMS) * time.Millisecond)
			for _, a := range st.Nodes {
				if err := c.nodes[a-1].start(); err != nil {
					c.startFailed(a, err, &out)
				}
			}
		case "transfer":
			if leader, _ := c.leaderOf(st.Slot); leader != 0 && leader != st.Nodes[0] {
				if rt := c.nodes[leader-1].runtime(); rt != nil {
					if rt.TransferLeadership(ctx, multiraft.SlotID(st.Slot), multiraft.NodeID(st.Nodes[0])) == nil {
						out.transferred++
					}
				}
			}
		case "addLearner", "removeLearner":
			if leader, _ := c.leaderOf(st.Slot); leader != 0 {
				if rt := c.nodes[leader-1].runtime(); rt != nil {
					change := multiraft.ConfigChange{Type: multiraft.AddLearner, NodeID: multiraft.NodeID(cfg.Nodes + 1)}
					if st.Kind == "removeLearner" {
						change.Type = multiraft.RemoveVoter
					}
					if fut, err := rt.ChangeConfig(ctx, multiraft.SlotID(st.Slot), change); err == nil {
						out.confChanges++
						wg.Add(1)
						go func() {
							defer wg.Done()
							_, _ = fut.Wait(ctx)
						}()
					}
				}
			}
		case "staleLeader":
			// a leader is cut off while clients still hand it proposals; the
			// rest elects a successor that commits its own commands at the same
			// log indexes; then the partition heals and the old leader learns
			// of the new term from the successor's messages
			c.net.heal()
			old, oldTerm := c.leaderOf(st.Slot)
			if old == 0 {
				break
			}
			out.staleSteps++
			for b := 1; b <= cfg.Nodes; b++ {
				if b != old {
					c.net.block(old, b)
					if !st.OneWay {
						c.net.block(b, old)
					}
				}
			}
			stale := burst(old, st.Slot, st.K, fmt.Sprintf("x%da", stepNo))
			next := 0
			for deadline := time.Now().Add(4*election + 100*time.Millisecond); time.Now().Before(deadline); time.Sleep(tick) {
				if n2, t2 := c.leaderOf(st.Slot); n2 != 0 && n2 != old && t2 > oldTerm {
					next = n2
					break
				}
			}
			fresh := 0
			if next != 0 {
				ids := burst(next, st.Slot, st.M, fmt.Sprintf("x%db", stepNo))
				fresh = len(ids)
				for deadline := time.Now().Add(2*election + 200*time.Millisecond); !resolved(ids) && time.Now().Before(deadline); {
					time.Sleep(tick)
				}
			}
			still := false
			if rt := c.nodes[old-1].runtime(); rt != nil {
				if status, err := rt.Status(multiraft.SlotID(st.Slot)); err == nil {
					still = status.Role == multiraft.RoleLeader && status.Term == oldTerm
				}
			}
			c.hist.add(verifC12Event{Kind: "stale", Node: old, Slot: st.Slot, Term: oldTerm, Peer: next, IDs: stale, N: fresh, Opening: still})
			c.net.heal()
		case "crashWrite", "voteCrash":
			class, slot, nth, before := st.Class, 0, st.Nth, st.Before
			targets := st.Nodes
			leader := 0
			if st.Kind == "voteCrash" {
				c.net.heal()
				leader, _ = c.leaderOf(st.Slot)
				if leader == 0 {
					break
				}
				class, slot, nth, targets = "vote", st.Slot, 1, nil
				for b := 1; b <= cfg.Nodes; b++ {
					if b != leader {
						targets = append(targets, b)
					}
				}
			} else if len(targets) == 0 {
				if leader, _ = c.leaderOf(st.Slot); leader == 0 {
					leader = (st.Slot-1)%cfg.Nodes + 1
				}
				targets = []int{leader}
			}
			fault := verifC12NewFault(class, slot, nth, before, st.Unsynced, uint64(cfg.Seed)+uint64(stepNo*16))
			out.crashArmed++
			if c.inflight.Load() > 0 {
				out.restartBusy++
			}
			for _, a := range targets {
				c.nodes[a-1].fault.Store(fault)
			}
			wait := time.Duration(st.PauseMS)*time.Millisecond + 2*election
			if st.Kind == "voteCrash" {
				isolate(leader)
				wait = 4*election + 100*time.Millisecond
			}
			select {
			case <-fault.fired:
			case <-time.After(wait):
			}
			fired := fault.cancel()
			for _, a := range targets {
				c.nodes[a-1].fault.Store(nil)
			}
			if !fired {
				if st.Kind == "voteCrash" {
					c.net.heal()
				}
				break
			}
			out.crashFired++
			out.crashWhat = append(out.crashWhat, fault.what)
			if st.Kind == "voteCrash" {
				// the crashed voter comes back on the old leader's side; the
				// candidate it was about to vote for stays on the other side
				out.voteCrashes++
				c.net.heal()
				for b := 1; b <= cfg.Nodes; b++ {
					if b != leader && b != fault.node {
						isolateFrom := []int{leader, fault.node}
						for _, a := range isolateFrom {
							c.net.block(a, b)
							c.net.block(b, a)
						}
					}
				}
			}
			revive(fault.node, st.DownMS)
			if st.Kind == "voteCrash" {
				time.Sleep(3 * election)
				c.net.heal()
			}
		case "compact":
			if rt := c.nodes[st.Nodes[0]-1].runtime(); rt != nil {
				cctx, ccancel := context.WithTimeout(ctx, 2*time.Second)
				if res, err := rt.CompactLog(cctx, multiraft.SlotID(st.Slot)); err == nil && res.Compacted {
					out.manualCompax++
				}
				ccancel()
			}
		}
		if out.machinery != "" || c.net.tripped.Load() {
			break
		}
		time.Sleep(time.Duration(st.PauseMS) * time.Millisecond)
	}

	// heal, let the workload finish or stop it, then settle
	c.net.heal()
	c.net.setLink(verifC12Link{DelayMaxUS: 200})
	close(stopProposers)
	if c.net.tripped.Load() {
		out.unsettled = "stopped early: clause (V) or (P) was violated on line"
	} else if out.machinery == "" {
		out.unsettled = c.settle(settleLimit, &out)
		c.hist.Settled = out.unsettled == ""
	}
	out.unresolved = int(c.inflight.Load())
	if out.unresolved > 0 {
		c.pending.Range(func(k, v any) bool {
			out.pendingInfo = append(out.pendingInfo, fmt.Sprintf("%v@n%v", k, v))
			return true
		})
		sort.Strings(out.pendingInfo)
		for s := 1; s <= cfg.Slots; s++ {
			for _, n := range c.nodes {
				if rt := n.runtime(); rt != nil {
					st, err := rt.Status(multiraft.SlotID(s))
					out.pendingInfo = append(out.pendingInfo, fmt.Sprintf("[s%d n%d role=%d leader=%d term=%d commit=%d applied=%d err=%v]", s, n.id, st.Role, st.LeaderID, st.Term, st.CommitIndex, st.AppliedIndex, err))
				}
			}
		}
	}
	shutdown()
	return out
}

// settle waits (bounded) until the healed cluster is quiescent: for every
// slot all nodes report the same commit index, have applied it, and exactly
// one of them leads - observed unchanged over several consecutive polls.
// Futures that never resolve are not waited for (that is a liveness matter
// outside C12; they are counted). A follower that stays behind (the runtime
// never reports a lost MsgSnap back to raft, so a leader can stay in
// StateSnapshot towards it) is helped by a leadership nudge: first a
// transfer, then a restart of the leader. It returns "" when settled, else
// why not; the caller treats "not settled" as inconclusive for the end-state
// clause only.
func (c *verifC12Cluster) settle(limit time.Duration, out *verifC12Outcome) string {
	deadline := time.Now().Add(limit)
	poll := time.Duration(c.cfg.TickMS*c.cfg.HeartbeatTick*2) * time.Millisecond
	election := time.Duration(c.cfg.TickMS*c.cfg.ElectionTick) * time.Millisecond
	nudgeEvery := 600*time.Millisecond + 3*election
	nextNudge := time.Now().Add(nudgeEvery)
	stable, need := 0, 4
	var prev string
	why := "no poll"
	for time.Now().Before(deadline) {
		time.Sleep(poll)
		roundSeq := c.hist.now()
		cur, ok, lagSlot := "", true, 0
		for s := 1; ok && s <= c.cfg.Slots; s++ {
			var commit uint64
			leaders := 0
			for i, n := range c.nodes {
				rt := n.runtime()
				if rt == nil {
					ok, why = false, "node down"
					break
				}
				st, err := rt.Status(multiraft.SlotID(s))
				if err != nil {
					ok, why = false, "status: "+err.Error()
					break
				}
				if st.Role == multiraft.RoleLeader {
					leaders++
				}
				if i == 0 {
					commit = st.CommitIndex
				}
				if st.CommitIndex != commit || st.AppliedIndex != commit {
					ok, why, lagSlot = false, fmt.Sprintf("slot %d node %d commit %d applied %d vs commit %d", s, n.id, st.CommitIndex, st.AppliedIndex, commit), s
					break
				}
				cur += fmt.Sprintf("%d/%d:%d:%d:%d;", s, n.id, st.Term, st.CommitIndex, st.LeaderID)
			}
			if ok && leaders != 1 {
				ok, why, lagSlot = false, fmt.Sprintf("slot %d has %d leaders", s, leaders), s
			}
		}
		if !ok {
			stable, prev = 0, ""
			if lagSlot != 0 && time.Now().After(nextNudge) {
				c.nudge(lagSlot, out)
				nextNudge = time.Now().Add(nudgeEvery)
			}
			continue
		}
		if cur == prev {
			stable++
			if stable >= need {
				c.hist.SettleSeq = roundSeq
				return ""
			}
		} else {
			stable, prev = 0, cur
		}
		why = "status still changing"
	}
	return why
}

func (c *verifC12Cluster) nudge(slot int, out *verifC12Outcome) {
	leader, _ := c.leaderOf(slot)
	if leader == 0 {
		return
	}
	out.nudges++
	if out.nudges%2 == 1 {
		rt := c.nodes[leader-1].runtime()
		if rt == nil {
			return
		}
		lst, err := rt.Status(multiraft.SlotID(slot))
		if err != nil {
			return
		}
		for _, n := range c.nodes {
			if n.id == leader {
				continue
			}
			if nrt := n.runtime(); nrt != nil {
				if st, err := nrt.Status(multiraft.SlotID(slot)); err == nil && st.CommitIndex == lst.CommitIndex {
					_ = rt.TransferLeadership(context.Background(), multiraft.SlotID(slot), multiraft.NodeID(n.id))
					return
				}
			}
		}
		return
	}
	n := c.nodes[leader-1]
	if err := n.stop(); err != nil && out.machinery == "" {
		out.machinery = "close: " + err.Error()
	}
	if err := n.start(); err != nil {
		c.startFailed(n.id, err, out)
	}
}

// startFailed: a node that cannot restart from its own storage is a finding
// (recorded for the oracle); any other start problem is machinery.
func (c *verifC12Cluster) startFailed(node int, err error, out *verifC12Outcome) {
	if errors.Is(err, verifC12ErrRestart) {
		c.hist.add(verifC12Event{Kind: "restartfailed", Node: node, Err: err.Error()})
	}
	if out.machinery == "" {
		out.machinery = err.Error()
	}
}

// ---------------------------------------------------------------- tests

func verifC12Checks() int {
	if f := flag.Lookup("rapid.checks"); f != nil {
		if n, err := strconv.Atoi(f.Value.String()); err == nil && n > 0 {
			return n
		}
	}
	return 12
}

func verifC12Describe(cfg verifC12Config) string {
	var sb strings.Builder
	fmt.Fprintf(&sb, "nodes=%d slots=%d tick=%dms el=%d hb=%d prevote=%v cq=%v workers=%d trigger=%d sm=%d pebble=%v memfs=%v kill=%v msg=%d infl=%d applying=%d link=%+v perSlot=%d window=%d gap=%dus bias=%d proposers=%d sticky=%v seed=%d steps=",
		cfg.Nodes, cfg.Slots, cfg.TickMS, cfg.ElectionTick, cfg.HeartbeatTick, cfg.PreVote, cfg.CheckQuorum, cfg.Workers, cfg.Trigger, cfg.SMKind, cfg.Pebble, cfg.MemFS, cfg.Kill,
		cfg.MaxSizePerMsg, cfg.MaxInflight, cfg.MaxApplying, cfg.Link, cfg.PerSlot, cfg.Window, cfg.GapUS, cfg.LeaderBias, cfg.Proposers, cfg.Sticky, cfg.Seed)
	for _, st := range cfg.Steps {
		fmt.Fprintf(&sb, "[%s %v s%d down%d +%dms", st.Kind, st.Nodes, st.Slot, st.DownMS, st.PauseMS)
		switch st.Kind {
		case "staleLeader":
			fmt.Fprintf(&sb, " k%d m%d oneway=%v", st.K, st.M, st.OneWay)
		case "crashWrite":
			fmt.Fprintf(&sb, " %s#%d before=%v", st.Class, st.Nth, st.Before)
		case "voteCrash":
			fmt.Fprintf(&sb, " before=%v", st.Before)
		}
		sb.WriteString("]")
	}
	return sb.String()
}

// TestVerifC12Replicas runs generated fault scripts against real runtimes and
// judges the recorded history. With VERIF_REPLAY_FILE it re-judges a saved
// history instead (deterministic).
func TestVerifC12Replicas(t *testing.T) {
	col := kit.For(t, "C12")
	if p := kit.ReplayFile(); p != "" {
		b, err := os.ReadFile(p)
		if err != nil {
			t.Fatalf("VERIF-MACHINERY: read replay %s: %v", p, err)
		}
		var h verifC12History
		if err := json.Unmarshal(b, &h); err != nil {
			t.Fatalf("VERIF-MACHINERY: decode replay %s: %v", p, err)
		}
		f := verifC12Check(&h)
		if len(f.KnownClass) > 0 && !kit.KnownFinding("C12", verifC12SigForwarded) {
			f.Violations = append(f.Violations, f.KnownClass...)
		}
		if len(f.Violations) > 0 {
			t.Fatalf("C12 violated in recorded history %s:\n  %s", p, strings.Join(f.Violations, "\n  "))
		}
		t.Logf("recorded history %s satisfies the oracle", p)
		return
	}

	slow := os.Getenv("VERIF_C12_SLOW") != ""
	runs := verifC12Checks()
	parallel := kit.Scale("C12_PAR", 4, 2)
	settleLimit := time.Duration(kit.Scale("C12_SETTLE_S", 20, 40)) * time.Second
	gen := verifC12GenConfig(kit.Thorough(), slow)
	seed := kit.Seed()

	type job struct {
		i   int
		cfg verifC12Config
	}
	jobs := make(chan job)
	var mu sync.Mutex // serialises evidence bookkeeping and the verdict
	var failure string
	knownSaved := 0
	var wg sync.WaitGroup
	for w := 0; w < parallel; w++ {
		wg.Add(1)
		go func() {
			defer wg.Done()
			for j := range jobs {
				fmt.Printf("C12 run %d start: %s\n", j.i, verifC12Describe(j.cfg))
				out := verifC12Run(j.cfg, settleLimit)
				facts := verifC12Check(out.hist)
				mu.Lock()
				if len(facts.KnownClass) > 0 {
					// a real violation of clause (E), of the one class recorded under
					// verifC12SigForwarded. Listed as known => report it and keep
					// judging everything else; not listed => it fails the check.
					path := ""
					if knownSaved < 3 {
						knownSaved++
						path = kit.SaveReplay("C12", t.Name()+"-known", "json", out.hist.marshal())
					}
					t.Logf("run %d: %d acknowledgement(s) by a node that did not lead the entry's term (%d acknowledged writes lost) history=%s\n  %s", j.i, len(facts.KnownClass), facts.AckedLost, path, strings.Join(facts.KnownClass[:1], "\n  "))
					if !kit.KnownFinding("C12", verifC12SigForwarded) {
						facts.Violations = append(facts.Violations, facts.KnownClass...)
					} else {
						col.AddExtra("c12_known_finding_runs", 1)
						col.AddExtra("c12_known_finding_bad_acks", int64(len(facts.KnownClass)))
						col.AddExtra("c12_known_finding_acked_writes_lost", int64(facts.AckedLost))
					}
				}
				if len(facts.Violations) > 0 {
					if failure == "" {
						path := kit.SaveReplay("C12", t.Name(), "json", out.hist.marshal())
						failure = fmt.Sprintf("VERIF-VIOLATION C12 run %d (history saved to %s)\ncase: %s\n  %s", j.i, path, verifC12Describe(j.cfg), strings.Join(facts.Violations, "\n  "))
					}
					mu.Unlock()
					continue
				}
				if out.machinery != "" {
					col.Inconclusive("machinery: " + verifC12Trunc(out.machinery))
					t.Logf("run %d: machinery problem (not judged): %s", j.i, out.machinery)
					mu.Unlock()
					continue
				}
				if out.unsettled != "" {
					// safety clauses were judged on the history; the end-state clause could not be
					col.Inconclusive("end state not settled within limit")
					t.Logf("run %d: not settled (%s) after %v: %s\n   pending: %v", j.i, out.unsettled, out.elapsed, verifC12Describe(j.cfg), out.pendingInfo)
				}
				k := col.NewCase()
				k.Key(verifC12Describe(j.cfg))
				leaderChange := facts.LeaderChanges > 0
				compactionBusy := facts.SnapshotsInflight > 0
				restartBusy := out.restartBusy > 0 && facts.Restarts > 0
				k.SetNonTrivial(leaderChange && (compactionBusy || restartBusy) && facts.Acks > 0)
				k.LabelIf(leaderChange, "commands applied under >=2 leader terms")
				k.LabelIf(facts.Terms >= 4, "one slot saw >=4 leader terms")
				k.LabelIf(compactionBusy, "compaction while proposals in flight")
				k.LabelIf(restartBusy, "restart while proposals in flight")
				k.LabelIf(facts.RestoresRunning > 0, "snapshot installed into a running replica")
				k.LabelIf(facts.RestoresOpen > 0, "restart restored from local snapshot")
				k.LabelIf(facts.ReplayedAfterOpen > 0, "restart replayed log suffix on top of snapshot")
				k.LabelIf(facts.Restarts > 0 && facts.RestoresOpen == 0, "restart without snapshot")
				k.LabelIf(out.netSnaps > 0, "MsgSnap sent")
				k.LabelIf(facts.Fails > 0, "some futures failed")
				k.LabelIf(facts.Rejects > 0, "some proposals rejected (not leader)")
				k.LabelIf(facts.DupIDs > 0, "a forwarded proposal was committed twice (duplicated MsgProp)")
				k.LabelIf(facts.MaxBatch > 1, "ApplyBatch with >1 command")
				k.LabelIf(out.transferred > 0, "leader transfer requested")
				k.LabelIf(out.manualCompax > 0, "manual CompactLog compacted")
				k.LabelIf(out.confChanges > 0, "membership change (learner) proposed")
				k.LabelIf(out.staleSnaps > 0, "memory store refused a compaction snapshot older than the installed one")
				k.LabelIf(out.netDropped > 0, "messages dropped")
				k.LabelIf(out.netDuped > 0, "messages duplicated")
				k.LabelIf(out.netBlocked > 0, "messages cut by partition")
				k.LabelIf(out.unsettled == "", "settled: end state judged")
				k.LabelIf(out.nudges > 0, "settle needed a leadership nudge (follower stuck behind)")
				k.LabelIf(out.unresolved > 0, "some futures never resolved")
				k.LabelIf(len(facts.KnownClass) > 0, "KNOWN FINDING hit: ack by a node that did not lead the entry's term")
				k.LabelIf(j.i < 0, "corpus script")
				k.LabelIf(j.cfg.Pebble, "pebble raftlog")
				k.LabelIf(j.cfg.Pebble && j.cfg.SMKind != 2 && facts.Restarts > 0, "pebble raftlog restarted under a state machine that relies on MarkApplied")
				k.LabelIf(out.staleSteps > 0, "stale-leader step ran")
				k.LabelIf(facts.StaleReached > 0, "cut-off leader: >=2 accepted proposals lost, successor filled their indexes with >=2 commands")
				k.LabelIf(facts.StaleStillLeader > 0, "cut-off leader with lost proposals still led when the partition healed (deposed by a queued message)")
				k.LabelIf(out.crashArmed > 0, "crash point armed at a storage write")
				k.LabelIf(facts.CrashWrites > 0, "power lost at a storage write")
				for what, n := range facts.CrashWhat {
					k.LabelIf(n > 0, "power lost at write: "+what)
				}
				k.LabelIf(out.voteCrashes > 0, "voter lost power at the write of its vote, restarted on the old leader's side")
				k.LabelIf(facts.VoteAfterRestart > 0, "a replica voted in two incarnations")
				k.LabelIf(facts.ReplayedAfterCrash > 0, "restart after power loss resumed above the last acknowledged MarkApplied")
				k.LabelIf(facts.MarkChecks > 0, "durable applied index compared with acknowledged MarkApplied at restart")
				k.LabelIf(facts.Kills > facts.CrashWrites, "power-loss restart at an arbitrary instant (pebble crash image)")
				k.LabelIf(j.cfg.Nodes == 5, "5 nodes")
				k.Label(fmt.Sprintf("state machine flavour %d", j.cfg.SMKind))
				col.AddExtra("c12_applies", int64(facts.Applies))
				col.AddExtra("c12_commands", int64(facts.Commands))
				col.AddExtra("c12_acks", int64(facts.Acks))
				col.AddExtra("c12_future_failures", int64(facts.Fails))
				col.AddExtra("c12_snapshots", int64(facts.Snapshots))
				col.AddExtra("c12_restores_running", int64(facts.RestoresRunning))
				col.AddExtra("c12_restarts", int64(facts.Restarts))
				col.AddExtra("c12_leader_changes", int64(facts.LeaderChanges))
				col.AddExtra("c12_futures_unresolved_at_end", int64(out.unresolved))
				col.AddExtra("c12_messages", out.netSent)
				col.AddExtra("c12_restart_promise_checks", int64(facts.DurableChecks))
				col.AddExtra("c12_votes_observed", int64(facts.VotesSeen))
				col.AddExtra("c12_stale_leader_shapes", int64(facts.StaleReached))
				col.AddExtra("c12_stale_leader_shapes_deposed_by_message", int64(facts.StaleStillLeader))
				col.AddExtra("c12_crash_points_reached", int64(facts.CrashWrites))
				cfg, f2, el := j.cfg, facts, out.elapsed
				k.Sample(func() any {
					return fmt.Sprintf("%s => commands=%d acks=%d fails=%d leaderChanges=%d snapshots=%d restoresRunning=%d restarts=%d in %v",
						verifC12Describe(cfg), f2.Commands, f2.Acks, f2.Fails, f2.LeaderChanges, f2.Snapshots, f2.RestoresRunning, f2.Restarts, el.Round(time.Millisecond))
				})
				col.Commit(k)
				t.Logf("run %d ok in %v (nudges %d): cmds=%d acks=%d fails=%d rejects=%d terms=%d leaderChanges=%d snaps=%d(busy %d) restoreRun=%d restoreOpen=%d restarts=%d(busy %d) unresolved=%d msgs=%d :: %s",
					j.i, out.elapsed.Round(time.Millisecond), out.nudges, facts.Commands, facts.Acks, facts.Fails, facts.Rejects, facts.Terms, facts.LeaderChanges, facts.Snapshots, facts.SnapshotsInflight,
					facts.RestoresRunning, facts.RestoresOpen, facts.Restarts, out.restartBusy, out.unresolved, out.netSent, verifC12Describe(j.cfg))
				mu.Unlock()
			}
		}()
	}
	// scripts kept in the corpus (cases that once exposed a seeded defect) run
	// first; like every other case they are judged on the history they produce
	for i, cfg := range verifC12CorpusScripts(t) {
		jobs <- job{i: -1 - i, cfg: cfg}
	}
	for i := 0; i < runs; i++ {
		mu.Lock()
		stop := failure != ""
		mu.Unlock()
		if stop || col.Exhausted() {
			break
		}
		// the script is drawn once; the run itself is not re-executed or shrunk
		cfg := gen.Example(int(seed%(1<<31))*1000 + i)
		jobs <- job{i: i, cfg: cfg}
	}
	close(jobs)
	wg.Wait()
	if failure != "" {
		t.Fatal(failure)
	}
}

// verifC12CorpusScripts loads corpus/C12/scripts/*.json: each file holds a
// verifC12Config, or a saved history whose "config" is taken.
func verifC12CorpusScripts(t *testing.T) []verifC12Config {
	dir := os.Getenv("VERIF_CORPUS_DIR")
	if dir == "" {
		return nil
	}
	files, _ := filepath.Glob(filepath.Join(dir, "scripts", "*.json"))
	sort.Strings(files)
	var out []verifC12Config
	for _, f := range files {
		b, err := os.ReadFile(f)
		if err != nil {
			continue
		}
		var h struct {
			Config *verifC12Config `json:"config"`
		}
		var cfg verifC12Config
		if json.Unmarshal(b, &h) == nil && h.Config != nil {
			cfg = *h.Config
		} else if err := json.Unmarshal(b, &cfg); err != nil {
			t.Logf("corpus script %s: %v", f, err)
			continue
		}
		if cfg.Nodes < 1 || cfg.Slots < 1 || cfg.TickMS < 1 || len(cfg.Steps) == 0 {
			t.Logf("corpus script %s: not a script", f)
			continue
		}
		if cfg.Kill && !kit.Thorough() {
			continue
		}
		out = append(out, cfg)
	}
	return out
}

func verifC12Trunc(s string) string {
	if len(s) > 60 {
		return s[:60]
	}
	return s
}
