package chatlifecycle

import (
	"fmt"
	"hash/crc32"
	"testing"

	"pgregory.net/rapid"
	"verif.local/kit"
)

func TestVerifC21Lifecycle(t *testing.T) {
	kit.Check(t, "C21", func(rt *rapid.T, k *kit.Case) {
		key := string(kit.Bytes(4096).Draw(rt, "key"))
		n := uint16(rapid.IntRange(1, 65535).Draw(rt, "count"))
		want := uint16(crc32.ChecksumIEEE([]byte(key)) % uint32(n))
		got := lifecycleHashSlotForKey(key, n)
		if got != want || got >= n {
			rt.Fatalf("chatlifecycle.lifecycleHashSlotForKey(%q,%d)=%d want %d", key, n, got, want)
		}
		_ = lifecycleHashSlotForKey(string(kit.Bytes(64).Draw(rt, "other")), uint16(rapid.IntRange(1, 65535).Draw(rt, "oc")))
		if lifecycleHashSlotForKey(key, n) != got {
			rt.Fatalf("not deterministic")
		}
		k.Key(key, n)
		k.SetNonTrivial(len(key) > 0 && n > 1)
		k.Sample(func() any { return fmt.Sprintf("key=%x count=%d slot=%d", trunc21(key), n, got) })
	})
}

func trunc21(s string) string {
	if len(s) > 24 {
		return s[:24]
	}
	return s
}
