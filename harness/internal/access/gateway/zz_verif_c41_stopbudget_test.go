package gateway

// C41 (surface 2/3, second generator) — Server.Stop whose release budget
// (RuntimeOptions.AsyncPoolReleaseTimeout) is spent while admitted SENDs are
// still in the send pipeline.
//
// Real core.Server + real access-gateway Handler + real codec on the fake
// transport, the C28 usecase fake held on a gate. One goroutine feeds whole
// SEND frames to 1..12 sessions in a generated order, so the number of SENDs
// each session got ACCEPTED is known exactly (admission observer delta per
// feed). Then, with the usecase still gated (every worker that picked up a
// shard is stuck in a handler; further sessions' SENDs sit accepted in other
// ordering shards without a worker), optionally an expired-deadline
// DrainSends and then Server.Stop with a generated (mostly tiny) release
// budget are called; more SENDs race with / follow the stop. Afterwards the
// gate is opened and the run is judged at the quiescent point: every SEND that
// was accepted is handed to the usecase exactly once, per session in FIFO
// order; nothing that arrived after the stop returned is dispatched; nothing is
// invented. Acks are judged by the C28 oracle on the same history (Server.Stop
// closes every session, so ack completeness is not demanded after it).
//
// No wall-clock verdict: "never dispatched" is only concluded by the
// quiescent-hang rule (usecase idle, no usecase progress at all for a long
// patience window, accepted SENDs still missing).

import (
	"context"
	"encoding/json"
	"fmt"
	"sort"
	"strings"
	"sync"
	"sync/atomic"
	"testing"
	"time"

	"github.com/WuKongIM/WuKongIM/pkg/gateway/core"
	"github.com/WuKongIM/WuKongIM/pkg/gateway/protocol/wkproto"
	"github.com/WuKongIM/WuKongIM/pkg/gateway/session"
	"github.com/WuKongIM/WuKongIM/pkg/gateway/testkit"
	gatewaytypes "github.com/WuKongIM/WuKongIM/pkg/gateway/types"
	codec "github.com/WuKongIM/WuKongIM/pkg/protocol/codec"
	"github.com/WuKongIM/WuKongIM/pkg/protocol/frame"
	"pgregory.net/rapid"
	"verif.local/kit"
)

const (
	verifC41GateHeld   = iota // usecase stays blocked until Server.Stop has returned
	verifC41GateRacing        // gate opened by a helper goroutine while Stop runs
	verifC41GateOpen          // gate opened before Stop is called (drain may fit the budget)
)

type verifC41Feed struct {
	Sess int `json:"sess"`
	N    int `json:"n"`
}

type verifC41StopParams struct {
	Workers     int               `json:"workers"`
	QueueCap    int               `json:"queue_cap"`
	BatchMax    int               `json:"batch_max"`
	BatchWaitUS int               `json:"batch_wait_us"` // -1 no wait, 0 default
	ReleaseUS   int               `json:"release_us"`    // AsyncPoolReleaseTimeout; 0 = package default
	Sessions    int               `json:"sessions"`
	Feeds       []verifC41Feed    `json:"feeds"`       // fed sequentially before the stop
	RaceFeeds   []verifC41Feed    `json:"race_feeds"`  // fed by a second goroutine started together with the stop
	EarlyDrain  bool              `json:"early_drain"` // DrainSends with an expired deadline before Server.Stop
	GateMode    int               `json:"gate_mode"`
	GateDelayUS int               `json:"gate_delay_us"`
	PostStopUS  int               `json:"post_stop_us"` // pause between Stop returning and the gate opening
	Calls       []verifC28CallBeh `json:"calls"`
}

func verifC41StopGen(rt *rapid.T) verifC41StopParams {
	p := verifC41StopParams{}
	p.Workers = rapid.SampledFrom([]int{1, 2, 2, 2, 3, 4, 8}).Draw(rt, "workers")
	p.QueueCap = rapid.SampledFrom([]int{4, 16, 64, 4096, 4096, 4096}).Draw(rt, "queueCap")
	p.BatchMax = rapid.SampledFrom([]int{1, 2, 4, 8, 0}).Draw(rt, "batchMax")
	switch rapid.IntRange(0, 2).Draw(rt, "batchWait") {
	case 0:
		p.BatchWaitUS = -1
	case 1:
		p.BatchWaitUS = rapid.IntRange(20, 500).Draw(rt, "batchWaitUS")
	}
	p.ReleaseUS = rapid.SampledFrom([]int{1, 1, 20, 200, 1000, 3000, 0}).Draw(rt, "releaseUS")
	p.Sessions = rapid.IntRange(1, 12).Draw(rt, "sessions")
	nFeeds := rapid.IntRange(1, 2*p.Sessions+2).Draw(rt, "feeds")
	for i := 0; i < nFeeds; i++ {
		f := verifC41Feed{Sess: rapid.IntRange(0, p.Sessions-1).Draw(rt, "feedSess"), N: rapid.IntRange(1, 4).Draw(rt, "feedN")}
		if i < p.Sessions && rapid.IntRange(0, 3).Draw(rt, "spread") > 0 {
			f.Sess = i // most cases give every session something to send
		}
		p.Feeds = append(p.Feeds, f)
	}
	nRace := rapid.SampledFrom([]int{0, 0, 1, 2, 4}).Draw(rt, "raceFeeds")
	for i := 0; i < nRace; i++ {
		p.RaceFeeds = append(p.RaceFeeds, verifC41Feed{Sess: rapid.IntRange(0, p.Sessions-1).Draw(rt, "raceSess"), N: rapid.IntRange(1, 3).Draw(rt, "raceN")})
	}
	p.EarlyDrain = rapid.IntRange(0, 3).Draw(rt, "earlyDrain") == 0
	p.GateMode = rapid.SampledFrom([]int{verifC41GateHeld, verifC41GateHeld, verifC41GateHeld, verifC41GateRacing, verifC41GateOpen}).Draw(rt, "gateMode")
	if p.GateMode == verifC41GateRacing {
		p.GateDelayUS = rapid.IntRange(0, 1500).Draw(rt, "gateDelayUS")
	}
	p.PostStopUS = rapid.SampledFrom([]int{0, 0, 100, 1000, 3000}).Draw(rt, "postStopUS")
	slow := rapid.IntRange(0, 2).Draw(rt, "slowUsecase")
	nCalls := rapid.IntRange(0, 8).Draw(rt, "callBehs")
	for i := 0; i < nCalls; i++ {
		b := verifC28CallBeh{EmitMode: rapid.IntRange(0, 2).Draw(rt, "emitMode")}
		if slow > 0 {
			b.LatencyUS = rapid.IntRange(0, 300*slow).Draw(rt, "latencyUS")
		}
		if rapid.IntRange(0, 3).Draw(rt, "fails") == 0 {
			b.FailMask = rapid.Uint32().Draw(rt, "failMask")
			b.FailKind = rapid.IntRange(0, 3).Draw(rt, "failKind")
		}
		p.Calls = append(p.Calls, b)
	}
	return p
}

type verifC41StopHistory struct {
	Params verifC41StopParams `json:"params"`
	// C28-shaped record of the same run (sessions, chunks, usecase calls,
	// decoded writes); Drains = [early DrainSends,] Server.Stop
	Base *verifC28History `json:"base"`
	// per session: SENDs accepted by admission (observer delta around each sequential feed)
	Accepted     []int `json:"accepted"`
	RaceAccepted int64 `json:"race_accepted"` // accepted out of the racing feeds (total only)
	Shards       int   `json:"shards"`        // label only: replica of the executor's shard count
	SessionShard []int `json:"session_shard"` // label only
	// measured when Server.Stop returned
	BlockedAtStop     int64  `json:"blocked_at_stop"`
	SeenAtStop        []int  `json:"seen_at_stop"` // per session: SENDs handed to the usecase so far
	GateClosedAtStop  bool   `json:"gate_closed_at_stop"`
	StopReturned      bool   `json:"stop_returned"`
	EarlyDrainBlocked bool   `json:"early_drain_blocked"`
	Missing           int64  `json:"missing"` // accepted - dispatched at the end of the wait
	IdleNS            int64  `json:"idle_ns"` // how long the usecase had been idle without progress when the wait ended
	SetupErr          string `json:"setup_err,omitempty"`
	unjoined          bool
}

// verifC41Shards replicates asyncSendLogicalShardCount. It feeds LABELS only
// (which sessions wait in a shard of their own); no verdict depends on it.
func verifC41Shards(workers, capacity int) int {
	if workers <= 1 {
		return 1
	}
	if workers <= capacity/4 {
		return workers * 4
	}
	return capacity
}

func verifC41Patience() time.Duration {
	return time.Duration(kit.Scale("C41_PATIENCE_S", 10, 30)) * time.Second
}

func verifC41RunStop(p verifC41StopParams) *verifC41StopHistory {
	var clock atomic.Int64
	base := &verifC28History{}
	h := &verifC41StopHistory{Params: p, Base: base}
	// the C28 fakes/oracle read a verifC28Params
	bp := verifC28Params{Workers: p.Workers, QueueCap: p.QueueCap, BatchMax: p.BatchMax, BatchWaitUS: p.BatchWaitUS, DrainAt: 0, DrainShort: true, StopAtEnd: true, Calls: p.Calls}
	perSess := make([]int, p.Sessions)
	for _, f := range p.Feeds {
		perSess[f.Sess] += f.N
	}
	for _, f := range p.RaceFeeds {
		perSess[f.Sess] += f.N
	}
	for i := 0; i < p.Sessions; i++ {
		ss := verifC28Session{CloseAfter: -1}
		for k := 0; k < perSess[i]; k++ {
			ss.Frames = append(ss.Frames, verifC28FrameSend)
		}
		bp.Sessions = append(bp.Sessions, ss)
	}
	base.Params = bp

	uc := &verifC28Usecase{p: &bp, clock: &clock, gate: make(chan struct{})}
	defer uc.openGate()
	obs := &verifC28Observer{}
	handler := New(Options{Messages: uc, OwnerNodeID: 1})
	factory := testkit.NewFakeTransportFactory("fake")
	proto := &verifC28Proto{Adapter: wkproto.New()}
	registry := core.NewRegistry()
	if err := registry.RegisterTransport(factory); err != nil {
		h.SetupErr = "setup: " + err.Error()
		return h
	}
	if err := registry.RegisterProtocol(proto); err != nil {
		h.SetupErr = "setup: " + err.Error()
		return h
	}
	opts := &gatewaytypes.Options{
		Handler:  handler,
		Observer: obs,
		Runtime: gatewaytypes.RuntimeOptions{
			AsyncSendWorkers:        p.Workers,
			AsyncSendQueueCapacity:  p.QueueCap,
			AsyncPoolReleaseTimeout: time.Duration(p.ReleaseUS) * time.Microsecond,
		},
		DefaultSession: gatewaytypes.SessionOptions{
			AsyncSendBatchMaxRecords: p.BatchMax,
			IdleTimeout:              time.Hour,
		},
		Listeners: []gatewaytypes.ListenerOptions{{Name: "l", Network: "tcp", Address: "fake:1", Transport: "fake", Protocol: wkproto.Name}},
	}
	switch {
	case p.BatchWaitUS < 0:
		opts.DefaultSession.AsyncSendBatchMaxWait = -1
	case p.BatchWaitUS > 0:
		opts.DefaultSession.AsyncSendBatchMaxWait = time.Duration(p.BatchWaitUS) * time.Microsecond
	}
	srv, err := core.NewServer(registry, opts)
	if err != nil {
		h.SetupErr = "setup: " + err.Error()
		return h
	}
	if err := srv.Start(); err != nil {
		h.SetupErr = "setup: " + err.Error()
		return h
	}
	stopped := false
	defer func() {
		if !stopped {
			uc.openGate()
			_ = srv.Stop()
		}
	}()
	cdc := codec.New()
	version := uint8(frame.LatestVersion)

	conns := make([]*testkit.FakeConn, p.Sessions)
	for i := 0; i < p.Sessions; i++ {
		conns[i] = factory.MustOpen("l", uint64(i+1))
	}
	proto.mu.Lock()
	sessions := append([]session.Session(nil), proto.sessions...)
	proto.mu.Unlock()
	if len(sessions) != p.Sessions {
		h.SetupErr = "setup: sessions not opened"
		return h
	}
	h.Shards = verifC41Shards(p.Workers, p.QueueCap)
	idToIdx := map[uint64]int{}
	for i := 0; i < p.Sessions; i++ {
		base.Sessions = append(base.Sessions, &verifC28SessRecord{SessionID: sessions[i].ID()})
		h.SessionShard = append(h.SessionShard, int(sessions[i].ID()%uint64(h.Shards)))
		idToIdx[sessions[i].ID()] = i
	}
	h.Accepted = make([]int, p.Sessions)
	connClosed := func(i int) bool {
		select {
		case <-conns[i].CloseCh():
			return true
		default:
			return false
		}
	}

	// feeding: one EmitData of n whole SEND frames = one chunk of the C28 record
	var recMu sync.Mutex
	nextSend := make([]int, p.Sessions) // next send index per session (shared by both feeders, under recMu)
	encode := func(sess, n int) ([]byte, error) {
		var buf []byte
		recMu.Lock()
		first := nextSend[sess]
		nextSend[sess] += n
		recMu.Unlock()
		for k := 0; k < n; k++ {
			b, err := cdc.EncodeFrame(verifC28SendFrame(sess, first+k), version)
			if err != nil {
				return nil, err
			}
			buf = append(buf, b...)
		}
		return buf, nil
	}
	feed := func(sess, n int) error {
		buf, err := encode(sess, n)
		if err != nil {
			return err
		}
		ch := verifC28Chunk{StartTick: clock.Add(1)}
		_ = conns[sess].EmitData(buf)
		ch.EndTick = clock.Add(1)
		recMu.Lock()
		rec := base.Sessions[sess]
		prev := 0
		if len(rec.Chunks) > 0 {
			prev = rec.Chunks[len(rec.Chunks)-1].FramesDone
		}
		ch.FramesDone = prev + n
		rec.Chunks = append(rec.Chunks, ch)
		recMu.Unlock()
		return nil
	}
	// NOTE: a session's frames are fed by one goroutine at a time: the racing
	// feeder only starts after the sequential feeds are done, and per session
	// chunk order == send index order because encode+EmitData of one session
	// never overlap (the racing feeder is a single goroutine).
	for _, f := range p.Feeds {
		before := obs.ok.Load()
		if err := feed(f.Sess, f.N); err != nil {
			h.SetupErr = "setup: encode: " + err.Error()
			return h
		}
		h.Accepted[f.Sess] += int(obs.ok.Load() - before)
	}
	acceptedBeforeRace := obs.ok.Load()

	seenPerSession := func() ([]int, int64) {
		out := make([]int, p.Sessions)
		var total int64
		uc.mu.Lock()
		for _, c := range uc.calls {
			for _, it := range c.Items {
				total++
				if idx, ok := idToIdx[it.SessionID]; ok {
					out[idx]++
				}
			}
		}
		uc.mu.Unlock()
		return out, total
	}

	// scheduling aid only: let the workers pick up what they can (they all end
	// up blocked on the gate). Decides nothing; what really happened is measured
	// when Stop returns.
	shardsWithWork := map[int]bool{}
	for i := 0; i < p.Sessions; i++ {
		if h.Accepted[i] > 0 {
			shardsWithWork[h.SessionShard[i]] = true
		}
	}
	target := int64(len(shardsWithWork))
	if target > int64(p.Workers) {
		target = int64(p.Workers)
	}
	for i := 0; i < 3000 && uc.inflight.Load() < target; i++ {
		time.Sleep(100 * time.Microsecond)
	}

	if p.GateMode == verifC41GateOpen {
		uc.openGate()
	}
	if p.EarlyDrain {
		rec := verifC28Drain{Short: true, BeginTick: clock.Add(1)}
		ctx, cancel := context.WithDeadline(context.Background(), time.Now().Add(-time.Second))
		err := srv.DrainSends(ctx)
		cancel()
		rec.UsecaseBlockedAtReturn = p.GateMode == verifC41GateHeld && uc.inflight.Load() > 0
		rec.ReturnTick = clock.Add(1)
		if err != nil {
			rec.Err = err.Error()
		}
		h.EarlyDrainBlocked = rec.UsecaseBlockedAtReturn
		base.Drains = append(base.Drains, rec)
	}

	var wg sync.WaitGroup
	if len(p.RaceFeeds) > 0 {
		wg.Add(1)
		go func() {
			defer wg.Done()
			for _, f := range p.RaceFeeds {
				_ = feed(f.Sess, f.N)
			}
		}()
	}
	if p.GateMode == verifC41GateRacing {
		wg.Add(1)
		go func() {
			defer wg.Done()
			verifC28Sleep(p.GateDelayUS)
			uc.openGate()
		}()
	}
	stopRec := verifC28Drain{BeginTick: clock.Add(1)}
	stopDone := make(chan error, 1)
	go func() { stopDone <- srv.Stop() }()
	stopTimer := time.NewTimer(verifC28WaitTimeout())
	select {
	case err := <-stopDone:
		h.StopReturned = true
		if err != nil {
			stopRec.Err = err.Error()
			base.StopErr = err.Error()
		}
	case <-stopTimer.C:
		// Stop does not return while the usecase is blocked: not this
		// property's business (it promises no bound), release and go on
		uc.openGate()
		<-stopDone
	}
	stopTimer.Stop()
	stopped = true
	h.BlockedAtStop = uc.inflight.Load()
	h.GateClosedAtStop = p.GateMode == verifC41GateHeld && h.StopReturned
	h.SeenAtStop, _ = seenPerSession()
	stopRec.UsecaseBlockedAtReturn = h.GateClosedAtStop && h.BlockedAtStop > 0
	stopRec.ReturnTick = clock.Add(1)
	base.Drains = append(base.Drains, stopRec)

	joined := make(chan struct{})
	go func() { wg.Wait(); close(joined) }()
	joinTimer := time.NewTimer(verifC28WaitTimeout())
	select {
	case <-joined:
	case <-joinTimer.C:
		uc.openGate()
		select {
		case <-joined:
		case <-time.After(verifC28WaitTimeout()):
			h.unjoined = true
			return h
		}
	}
	joinTimer.Stop()
	h.RaceAccepted = obs.ok.Load() - acceptedBeforeRace

	// after the stop returned: a SEND on any connection is not admitted
	for i := 0; i < p.Sessions; i++ {
		probe := &frame.SendPacket{ClientSeq: 1 << 40, ClientMsgNo: "late-probe", ChannelID: "g1", ChannelType: frame.ChannelTypeGroup, Payload: []byte("late")}
		b, _ := cdc.EncodeFrame(probe, version)
		_ = conns[i].EmitData(b)
	}
	verifC28Sleep(p.PostStopUS)
	uc.openGate()

	// quiescent point: everything accepted was handed to the usecase and every
	// call returned -- or the usecase is idle and nothing at all progresses
	want := obs.ok.Load()
	start := time.Now()
	lastProgress := uc.progress.Load()
	lastChange := start
	for {
		_, total := seenPerSession()
		if total >= want && uc.inflight.Load() == 0 {
			break
		}
		now := time.Now()
		if pr := uc.progress.Load(); pr != lastProgress || uc.inflight.Load() != 0 {
			lastProgress = pr
			lastChange = now
		}
		if now.Sub(lastChange) >= verifC41Patience() {
			base.Hung = "quiescent"
			h.IdleNS = int64(now.Sub(lastChange))
			break
		}
		if now.Sub(start) >= 3*verifC41Patience() {
			base.Hung = "busy"
			break
		}
		time.Sleep(200 * time.Microsecond)
	}
	_, total := seenPerSession()
	h.Missing = want - total

	for i := 0; i < p.Sessions; i++ {
		base.Sessions[i].ClosedAtEnd = connClosed(i)
	}
	for i := 0; i < p.Sessions; i++ {
		for _, w := range conns[i].Writes() {
			f, n, err := cdc.DecodeFrame(w, version)
			if err != nil || f == nil || n != len(w) {
				base.DecodeErr = fmt.Sprintf("session %d: write of %d bytes does not decode to exactly one frame (n=%d err=%v)", i, len(w), n, err)
				continue
			}
			switch pkt := f.(type) {
			case *frame.SendackPacket:
				base.Sessions[i].Out = append(base.Sessions[i].Out, verifC28Out{Type: "sendack", ClientSeq: pkt.ClientSeq, ClientMsgNo: pkt.ClientMsgNo, MsgID: pkt.MessageID, Seq: pkt.MessageSeq, Reason: uint8(pkt.ReasonCode)})
			default:
				base.Sessions[i].Out = append(base.Sessions[i].Out, verifC28Out{Type: f.GetFrameType().String()})
			}
		}
	}
	uc.mu.Lock()
	base.Calls = append([]*verifC28Call(nil), uc.calls...)
	uc.mu.Unlock()
	base.AdmitFull = obs.full.Load()
	base.AdmitOK = obs.ok.Load()
	return h
}

type verifC41StopVerdict struct {
	violations      []string
	budgetExpired   bool // Stop returned while an admitted batch was blocked in the usecase
	allWorkersBusy  bool
	waitingOther    int // sessions with accepted, not yet dispatched SENDs in a shard no blocked handler is serving
	waitingBehind   int // ... in a shard whose handler is blocked (queued behind it)
	rejected        bool
	raceAccepted    bool
	raceRejected    bool
	dispatchedTotal int
}

func verifC41JudgeStop(h *verifC41StopHistory) *verifC41StopVerdict {
	v := &verifC41StopVerdict{}
	fail := func(format string, args ...any) {
		if len(v.violations) < 12 {
			v.violations = append(v.violations, fmt.Sprintf(format, args...))
		}
	}
	p := h.Params
	base := h.Base
	if h.SetupErr != "" || h.unjoined {
		return v
	}
	// what the usecase was handed, per session
	seen := make([][]uint64, p.Sessions)
	idToIdx := map[uint64]int{}
	for i, rec := range base.Sessions {
		idToIdx[rec.SessionID] = i
	}
	calls := append([]*verifC28Call(nil), base.Calls...)
	sort.SliceStable(calls, func(i, j int) bool { return calls[i].StartTick < calls[j].StartTick })
	for _, c := range calls {
		for _, it := range c.Items {
			idx, ok := idToIdx[it.SessionID]
			if !ok {
				fail("the usecase received a SEND for unknown session id %d", it.SessionID)
				continue
			}
			seen[idx] = append(seen[idx], it.ClientSeq)
			v.dispatchedTotal++
		}
	}

	// labels: the situation when Stop returned
	v.budgetExpired = h.GateClosedAtStop && h.BlockedAtStop > 0
	v.allWorkersBusy = v.budgetExpired && h.BlockedAtStop >= int64(p.Workers)
	if v.budgetExpired {
		busyShard := map[int]bool{}
		stopReturn := base.Drains[len(base.Drains)-1].ReturnTick
		for _, c := range base.Calls {
			if c.StartTick < stopReturn && (c.EndTick == 0 || c.EndTick > stopReturn) {
				for _, it := range c.Items {
					if idx, ok := idToIdx[it.SessionID]; ok {
						busyShard[h.SessionShard[idx]] = true
					}
				}
			}
		}
		for i := 0; i < p.Sessions; i++ {
			if h.Accepted[i] > h.SeenAtStop[i] {
				if busyShard[h.SessionShard[i]] {
					v.waitingBehind++
				} else {
					v.waitingOther++
				}
			}
		}
	}
	racePerSess := make([]int, p.Sessions)
	for _, f := range p.RaceFeeds {
		racePerSess[f.Sess] += f.N
	}
	raceFed := 0
	for _, n := range racePerSess {
		raceFed += n
	}
	v.raceAccepted = h.RaceAccepted > 0
	v.raceRejected = int64(raceFed) > h.RaceAccepted
	fedSeq := make([]int, p.Sessions)
	for _, f := range p.Feeds {
		fedSeq[f.Sess] += f.N
	}
	for i := range fedSeq {
		if h.Accepted[i] < fedSeq[i] {
			v.rejected = true
		}
	}

	if base.Hung == "busy" {
		return v // inconclusive
	}

	// (1) the early expired DrainSends / the Stop itself do not pretend the drain finished
	if p.EarlyDrain && len(base.Drains) > 0 {
		early := base.Drains[0]
		if early.UsecaseBlockedAtReturn && early.Err == "" {
			fail("DrainSends (expired deadline) returned nil although an admitted SEND batch was still blocked in the usecase")
		}
		if early.Err != "" && !strings.Contains(early.Err, "deadline") {
			fail("DrainSends with an expired deadline returned %q, want the context error", early.Err)
		}
	}

	// (2) every accepted SEND is handed to the usecase exactly once, FIFO per session
	for i := 0; i < p.Sessions; i++ {
		for k, seq := range seen[i] {
			if seq != uint64(k+1) {
				fail("session %d: the usecase received client seq %d as the #%d SEND of the session -- dispatch must be FIFO and exactly once", i, seq, k+1)
				break
			}
		}
		lo := h.Accepted[i]
		hi := h.Accepted[i] + racePerSess[i]
		if len(seen[i]) > hi {
			fail("session %d: the usecase received %d SENDs, at most %d were accepted", i, len(seen[i]), hi)
		}
		if base.Hung == "" && len(seen[i]) < lo {
			fail("session %d: %d SENDs were accepted before Server.Stop, the usecase received %d", i, lo, len(seen[i]))
		}
	}
	if base.Hung == "" && int64(v.dispatchedTotal) != base.AdmitOK {
		fail("%d SENDs were accepted by admission, the usecase received %d", base.AdmitOK, v.dispatchedTotal)
	}
	if base.Hung == "quiescent" {
		var lost []string
		for i := 0; i < p.Sessions; i++ {
			if len(seen[i]) < h.Accepted[i] {
				lost = append(lost, fmt.Sprintf("session %d (shard %d): accepted %d, dispatched %d (%d when Stop returned)", i, h.SessionShard[i], h.Accepted[i], len(seen[i]), h.SeenAtStop[i]))
			}
		}
		fail("accepted SENDs were dropped by Server.Stop: %d accepted, %d handed to the usecase; the usecase is idle and nothing has progressed for %s after the handlers were released [workers=%d release budget=%dus blocked handlers when Stop returned=%d] %s",
			base.AdmitOK, v.dispatchedTotal, time.Duration(h.IdleNS).Round(time.Millisecond), p.Workers, p.ReleaseUS, h.BlockedAtStop, strings.Join(lost, "; "))
	}
	// (3) every usecase call that started also finished (nothing abandoned mid-flight)
	if base.Hung == "" {
		for _, c := range base.Calls {
			if c.EndTick == 0 {
				fail("usecase call %d never finished", c.No)
			}
		}
	}
	return v
}

func TestVerifC41GatewayStopBudget(t *testing.T) {
	col := kit.For(t, "C41")
	kit.Check(t, "C41", func(rt *rapid.T, k *kit.Case) {
		p := verifC41StopGen(rt)
		h := verifC41RunStop(p)
		if h.unjoined {
			fmt.Println("VERIF-MACHINERY: C41 gateway stop harness could not join its goroutines")
			t.Fatalf("VERIF-MACHINERY: goroutines not joined")
		}
		if h.SetupErr != "" {
			fmt.Println("VERIF-MACHINERY: C41 gateway stop setup failed: " + h.SetupErr)
			t.Fatalf("VERIF-MACHINERY: %s", h.SetupErr)
		}
		v := verifC41JudgeStop(h)
		// C28 oracle on the same history (ack order / ack == usecase result /
		// nothing delivered after the fence is dispatched / late probe); its own
		// hang message is replaced by the one above
		hung := h.Base.Hung
		h.Base.Hung = ""
		base := verifC28Judge(h.Base)
		h.Base.Hung = hung
		all := append(append([]string(nil), v.violations...), base.violations...)
		if len(all) > 0 {
			verifC28Fail(rt, "C41", t.Name(), h, all)
		}
		if hung != "" {
			col.Inconclusive("deadline while busy")
			rt.Skip("inconclusive")
		}
		b, _ := json.Marshal(p)
		k.Key("gateway-stop", string(b))
		k.SetNonTrivial(v.budgetExpired)
		k.Label("surface: gateway Server.Stop with a release budget")
		k.LabelIf(v.budgetExpired, "gateway stop: release budget expired while a SEND batch was blocked in the usecase")
		k.LabelIf(v.allWorkersBusy, "gateway stop: budget expired with ALL send workers blocked")
		k.LabelIf(v.waitingOther > 0, "gateway stop: budget expired with accepted SENDs waiting for a worker in another shard")
		k.LabelIf(v.allWorkersBusy && v.waitingOther > 0, "gateway stop: budget expired, all workers blocked AND accepted SENDs waiting for a worker in another shard")
		k.LabelIf(v.waitingBehind > 0, "gateway stop: budget expired with accepted SENDs queued behind a blocked handler (same shard)")
		k.LabelIf(!h.StopReturned, "gateway stop: Server.Stop did not return while the usecase was blocked")
		k.LabelIf(p.EarlyDrain, "gateway stop: expired DrainSends before Server.Stop")
		k.LabelIf(h.EarlyDrainBlocked, "gateway stop: expired DrainSends returned while a batch was blocked")
		k.LabelIf(p.GateMode == verifC41GateRacing, "gateway stop: handlers released while Stop runs")
		k.LabelIf(p.GateMode == verifC41GateOpen, "gateway stop: handlers released before Stop")
		k.LabelIf(v.rejected, "gateway stop: some SENDs rejected by admission before the stop (queue full)")
		k.LabelIf(v.raceAccepted, "gateway stop: a SEND racing with Stop was accepted")
		k.LabelIf(v.raceRejected, "gateway stop: a SEND racing with Stop was rejected")
		k.LabelIf(base.acks > 0, "gateway stop: SENDACKs written before the sessions were closed")
		col.AddExtra("stop_budget_dispatched_sends", int64(v.dispatchedTotal))
		k.Sample(func() any {
			return fmt.Sprintf("gateway-stop: sessions=%d workers=%d shards=%d releaseUS=%d gate=%d earlyDrain=%v accepted=%d dispatched=%d blockedAtStop=%d waitingOtherShard=%d", p.Sessions, p.Workers, h.Shards, p.ReleaseUS, p.GateMode, p.EarlyDrain, h.Base.AdmitOK, v.dispatchedTotal, h.BlockedAtStop, v.waitingOther)
		})
	})
}
