package gateway

// C41 (surface 2/3) — gateway DrainSends / Stop never drops accepted SENDs.
// Reuses the C28 runner with a drain-biased generator and a gate that keeps
// every usecase call blocked until the early DrainSends call has returned.

import (
	"encoding/json"
	"fmt"
	"strings"
	"testing"

	"pgregory.net/rapid"
	"verif.local/kit"
)

type verifC41DrainVerdict struct {
	violations     []string
	expiredBlocked bool
	earlyErr       bool
}

func verifC41JudgeDrain(h *verifC28History) *verifC41DrainVerdict {
	v := &verifC41DrainVerdict{}
	fail := func(format string, args ...any) {
		if len(v.violations) < 12 {
			v.violations = append(v.violations, fmt.Sprintf(format, args...))
		}
	}
	if h.Hung != "" || strings.HasPrefix(h.FinalErr, "setup") || len(h.Drains) < 2 {
		return v
	}
	early := h.Drains[0]
	v.earlyErr = early.Err != ""
	if early.UsecaseBlockedAtReturn {
		v.expiredBlocked = true
		if early.Err == "" {
			fail("DrainSends returned nil although an admitted SEND batch was still blocked in the usecase")
		}
	}
	if early.Err != "" && !early.Short {
		fail("a patient DrainSends failed: %s", early.Err)
	}
	if early.Err != "" && !strings.Contains(early.Err, "deadline") {
		fail("DrainSends with an expired deadline returned %q, want the context error", early.Err)
	}
	if !h.Params.StopAtEnd && h.FinalErr != "" {
		fail("the later DrainSends did not complete: %s", h.FinalErr)
	}
	// every usecase call that had started finished (nothing discarded mid-flight) and saw no cancellation caused by the drain
	for _, c := range h.Calls {
		if c.EndTick == 0 {
			fail("usecase call %d never finished", c.No)
		}
	}
	return v
}

func TestVerifC41GatewayDrain(t *testing.T) {
	col := kit.For(t, "C41")
	kit.Check(t, "C41", func(rt *rapid.T, k *kit.Case) {
		p := verifC28Gen(rt, true)
		gated := p.DrainAt >= 0 && rapid.IntRange(0, 3).Draw(rt, "gateUsecase") > 0
		p.StopAtEnd = rapid.IntRange(0, 4).Draw(rt, "stopAtEnd") == 0
		h := verifC28Run(p, gated)
		if h.unjoined {
			fmt.Println("VERIF-MACHINERY: C41 gateway harness could not join its goroutines")
			t.Fatalf("VERIF-MACHINERY: goroutines not joined")
		}
		if strings.HasPrefix(h.FinalErr, "setup") {
			fmt.Println("VERIF-MACHINERY: C41 gateway setup failed: " + h.FinalErr)
			t.Fatalf("VERIF-MACHINERY: %s", h.FinalErr)
		}
		base := verifC28Judge(h)
		v := verifC41JudgeDrain(h)
		all := append(append([]string(nil), v.violations...), base.violations...)
		if len(all) > 0 {
			verifC28Fail(rt, "C41", t.Name(), h, all)
		}
		if h.Hung != "" {
			col.Inconclusive("deadline while busy")
			rt.Skip("inconclusive")
		}
		b, _ := json.Marshal(p)
		k.Key("gateway", string(b), gated)
		k.SetNonTrivial(v.expiredBlocked)
		k.Label("surface: gateway DrainSends/Stop")
		k.LabelIf(v.expiredBlocked, "gateway: DrainSends deadline expired while a SEND batch was blocked")
		k.LabelIf(v.earlyErr, "gateway: early DrainSends returned its context error")
		k.LabelIf(len(h.Drains) > 1 && !v.earlyErr, "gateway: early DrainSends returned nil")
		k.LabelIf(p.StopAtEnd, "gateway: Server.Stop as the final call")
		k.LabelIf(base.drainMidBurst, "gateway: fence raised mid-burst")
		k.Sample(func() any {
			return fmt.Sprintf("gateway: sessions=%d drainAt=%d short=%v gated=%v stopAtEnd=%v calls=%d acks=%d", len(p.Sessions), p.DrainAt, p.DrainShort, gated, p.StopAtEnd, len(h.Calls), base.acks)
		})
	})
}
