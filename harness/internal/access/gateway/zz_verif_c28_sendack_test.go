package gateway

// C28 — every SEND gets exactly one SENDACK, in order.
//
// Real pkg/gateway/core.Server + the real access-gateway Handler + the real
// wkproto codec, fed through the testkit fake transport by one feeder
// goroutine per connection (byte stream cut at generated offsets), against a
// fake message usecase with generated latencies / failures / emission
// interleavings. Everything written to each fake connection is decoded again
// and judged after the final DrainSends returned nil (quiescent point).

import (
	"context"
	"encoding/json"
	"errors"
	"fmt"
	"runtime"
	"sort"
	"strings"
	"sync"
	"sync/atomic"
	"testing"
	"time"

	"github.com/WuKongIM/WuKongIM/internal/usecase/message"
	"github.com/WuKongIM/WuKongIM/pkg/gateway/core"
	"github.com/WuKongIM/WuKongIM/pkg/gateway/protocol/wkproto"
	"github.com/WuKongIM/WuKongIM/pkg/gateway/session"
	"github.com/WuKongIM/WuKongIM/pkg/gateway/testkit"
	gatewaytypes "github.com/WuKongIM/WuKongIM/pkg/gateway/types"
	codec "github.com/WuKongIM/WuKongIM/pkg/protocol/codec"
	"github.com/WuKongIM/WuKongIM/pkg/protocol/frame"
	"pgregory.net/rapid"
	"verif.local/kit"
)

// ---- workload ----

const (
	verifC28FrameSend = iota
	verifC28FramePing
)

type verifC28Session struct {
	Frames     []int `json:"frames"`      // kinds, in stream order
	Cuts       []int `json:"cuts"`        // per-mille cut points of the byte stream
	CloseAfter int   `json:"close_after"` // close the connection after this many chunks; -1 never
	Pushes     int   `json:"pushes"`      // frames written through the session by a second goroutine
	PauseUS    []int `json:"pause_us"`    // pause before chunk i (cyclic)
}

type verifC28CallBeh struct {
	LatencyUS int    `json:"latency_us"`
	FailMask  uint32 `json:"fail_mask"`
	FailKind  int    `json:"fail_kind"`
	EmitMode  int    `json:"emit_mode"`
	// EmitMode 3: results complete in an arbitrary order, also within one
	// session: item i is emitted in the stable order of EmitKeys[i%len] (the
	// append latency of the item's channel); no keys = reversed.
	EmitKeys []int `json:"emit_keys,omitempty"`
}

type verifC28Params struct {
	Workers     int               `json:"workers"`
	QueueCap    int               `json:"queue_cap"`
	BatchMax    int               `json:"batch_max"`
	BatchWaitUS int               `json:"batch_wait_us"` // -1 no wait, 0 default
	Sessions    []verifC28Session `json:"sessions"`
	DrainAt     int               `json:"drain_at"` // global chunk index at which DrainSends starts; -1 none
	DrainShort  bool              `json:"drain_short"`
	StopAtEnd   bool              `json:"stop_at_end"` // C41: use Server.Stop instead of a patient final DrainSends
	Calls       []verifC28CallBeh `json:"calls"`
	// TailEmit: emission behaviour (mode and keys only) of every usecase call
	// beyond len(Calls)
	TailEmit verifC28CallBeh `json:"tail_emit"`
}

// verifC28GenEmit draws how one usecase call orders its result emissions.
// Modes 0-2 keep each session's items in input order (what the real message
// App does for sessions it can identify); mode 3 completes the items in an
// arbitrary order, which the SendBatchEach contract allows ("Indexes may arrive
// out of input order") and which the handler's per-session reorder buffer
// exists for (cf. TestOnSendBatchBuffersOutOfOrderResultsForOneSession).
func verifC28GenEmit(rt *rapid.T, b *verifC28CallBeh) {
	b.EmitMode = rapid.SampledFrom([]int{0, 1, 2, 3, 3, 3}).Draw(rt, "emitMode")
	if b.EmitMode == 3 {
		n := rapid.IntRange(0, 8).Draw(rt, "emitKeys")
		for i := 0; i < n; i++ {
			b.EmitKeys = append(b.EmitKeys, rapid.IntRange(0, 3).Draw(rt, "emitKey"))
		}
	}
}

func verifC28Gen(rt *rapid.T, drainBias bool) verifC28Params {
	p := verifC28Params{}
	p.Workers = rapid.SampledFrom([]int{1, 1, 2, 3, 4, 8}).Draw(rt, "workers")
	p.QueueCap = rapid.SampledFrom([]int{4, 16, 64, 4096, 4096, 4096, 4096}).Draw(rt, "queueCap")
	p.BatchMax = rapid.SampledFrom([]int{1, 2, 4, 8, 0}).Draw(rt, "batchMax")
	switch rapid.IntRange(0, 2).Draw(rt, "batchWait") {
	case 0:
		p.BatchWaitUS = -1
	case 1:
		p.BatchWaitUS = rapid.IntRange(20, 500).Draw(rt, "batchWaitUS")
	}
	nSess := rapid.IntRange(1, 8).Draw(rt, "sessions")
	maxBurst := kit.Scale("C28_BURST", 40, 200)
	totalChunks := 0
	for s := 0; s < nSess; s++ {
		var ss verifC28Session
		n := rapid.IntRange(1, maxBurst).Draw(rt, "burst")
		if rapid.IntRange(0, 2).Draw(rt, "smallBurst") == 0 {
			n = rapid.IntRange(1, 6).Draw(rt, "burstSmall")
		}
		pingPct := rapid.SampledFrom([]int{0, 0, 10}).Draw(rt, "pingPct")
		for i := 0; i < n; i++ {
			k := verifC28FrameSend
			if rapid.IntRange(0, 99).Draw(rt, "kind") < pingPct {
				k = verifC28FramePing
			}
			ss.Frames = append(ss.Frames, k)
		}
		nCuts := rapid.IntRange(0, 16).Draw(rt, "cuts")
		for i := 0; i < nCuts; i++ {
			ss.Cuts = append(ss.Cuts, rapid.IntRange(1, 999).Draw(rt, "cut"))
		}
		sort.Ints(ss.Cuts)
		ss.CloseAfter = -1
		if rapid.IntRange(0, 4).Draw(rt, "closes") == 0 {
			ss.CloseAfter = rapid.IntRange(0, nCuts+1).Draw(rt, "closeAfter")
		}
		if rapid.IntRange(0, 2).Draw(rt, "pusher") == 0 {
			ss.Pushes = rapid.IntRange(1, 12).Draw(rt, "pushes")
		}
		nPause := rapid.IntRange(0, 3).Draw(rt, "pauses")
		for i := 0; i < nPause; i++ {
			ss.PauseUS = append(ss.PauseUS, rapid.IntRange(0, 300).Draw(rt, "pauseUS"))
		}
		totalChunks += nCuts + 1
		p.Sessions = append(p.Sessions, ss)
	}
	p.DrainAt = -1
	roll := rapid.IntRange(0, 9).Draw(rt, "drainRoll")
	if (drainBias && roll < 8) || (!drainBias && roll < 2) {
		p.DrainAt = rapid.IntRange(0, totalChunks).Draw(rt, "drainAt")
		if drainBias && totalChunks > 1 {
			p.DrainAt = rapid.IntRange(1, totalChunks-1).Draw(rt, "drainAtMid")
		}
		p.DrainShort = rapid.Bool().Draw(rt, "drainShort")
	}
	slow := rapid.IntRange(0, 2).Draw(rt, "slowUsecase")
	nCalls := rapid.IntRange(0, 12).Draw(rt, "callBehs")
	for i := 0; i < nCalls; i++ {
		b := verifC28CallBeh{}
		verifC28GenEmit(rt, &b)
		switch slow {
		case 1:
			b.LatencyUS = rapid.IntRange(0, 400).Draw(rt, "latencyUS")
		case 2:
			b.LatencyUS = rapid.IntRange(200, 3000).Draw(rt, "latencySlowUS")
		}
		if rapid.IntRange(0, 3).Draw(rt, "fails") == 0 {
			b.FailMask = rapid.Uint32().Draw(rt, "failMask")
			b.FailKind = rapid.IntRange(0, 3).Draw(rt, "failKind")
		}
		p.Calls = append(p.Calls, b)
	}
	verifC28GenEmit(rt, &p.TailEmit)
	return p
}

// ---- fakes ----

type verifC28Proto struct {
	*wkproto.Adapter
	mu       sync.Mutex
	sessions []session.Session
}

func (a *verifC28Proto) OnOpen(sess session.Session) error {
	a.mu.Lock()
	idx := len(a.sessions)
	a.sessions = append(a.sessions, sess)
	a.mu.Unlock()
	sess.SetValue(gatewaytypes.SessionValueUID, fmt.Sprintf("u%d", idx))
	sess.SetValue(gatewaytypes.SessionValueProtocolVersion, uint8(frame.LatestVersion))
	return a.Adapter.OnOpen(sess)
}

type verifC28CallItem struct {
	SessionID   uint64 `json:"session_id"`
	ClientSeq   uint64 `json:"client_seq"`
	ClientMsgNo string `json:"client_msg_no"`
	MsgID       uint64 `json:"msg_id"`
	Seq         uint64 `json:"seq"`
	Failed      bool   `json:"failed"`
	Reason      uint8  `json:"reason"` // expected frame.ReasonCode
	Emitted     bool   `json:"emitted"`
	EmitPos     int    `json:"emit_pos"` // position in the call's emission sequence (valid when Emitted)
	EmitErr     string `json:"emit_err,omitempty"`
	CtxErrAtEnd string `json:"ctx_err_at_end,omitempty"`
}

type verifC28Call struct {
	No        int                `json:"no"`
	StartTick int64              `json:"start_tick"`
	EndTick   int64              `json:"end_tick"`
	Items     []verifC28CallItem `json:"items"`
	Err       string             `json:"err,omitempty"`
}

type verifC28Usecase struct {
	p        *verifC28Params
	clock    *atomic.Int64
	mu       sync.Mutex
	calls    []*verifC28Call
	inflight atomic.Int64
	progress atomic.Int64
	nextID   atomic.Uint64
	gate     chan struct{} // C41: when non-nil, calls block here until opened
	gateOnce sync.Once
}

func (u *verifC28Usecase) openGate() {
	if u.gate != nil {
		u.gateOnce.Do(func() { close(u.gate) })
	}
}

func verifC28Sleep(us int) {
	if us <= 0 {
		return
	}
	if us < 30 {
		runtime.Gosched()
		return
	}
	time.Sleep(time.Duration(us) * time.Microsecond)
}

var verifC28FailErrs = []error{message.ErrRouteNotReady, message.ErrChannelNotFound, errors.New("verif: injected send failure"), context.DeadlineExceeded}

func (u *verifC28Usecase) SendBatchEach(items []message.SendBatchItem, emit func(int, message.SendBatchItemResult) error) error {
	u.inflight.Add(1)
	defer u.inflight.Add(-1)
	u.mu.Lock()
	call := &verifC28Call{No: len(u.calls), StartTick: u.clock.Add(1)}
	var beh verifC28CallBeh
	if call.No < len(u.p.Calls) {
		beh = u.p.Calls[call.No]
	} else {
		beh.EmitMode, beh.EmitKeys = u.p.TailEmit.EmitMode, u.p.TailEmit.EmitKeys
	}
	results := make([]message.SendBatchItemResult, len(items))
	for i, it := range items {
		ci := verifC28CallItem{SessionID: it.Command.SenderSessionID, ClientSeq: it.Command.ClientSeq, ClientMsgNo: it.Command.ClientMsgNo}
		if beh.FailMask&(1<<uint(i%32)) != 0 {
			err := verifC28FailErrs[beh.FailKind%len(verifC28FailErrs)]
			ci.Failed = true
			ci.Reason = uint8(mapReason(reasonForError(err)))
			results[i] = message.SendBatchItemResult{Err: err}
		} else {
			id := u.nextID.Add(1) + 5000
			ci.MsgID = id
			ci.Seq = id - 5000
			ci.Reason = uint8(frame.ReasonSuccess)
			results[i] = message.SendBatchItemResult{Result: message.SendResult{MessageID: id, MessageSeq: ci.Seq, Reason: message.ReasonSuccess}}
		}
		call.Items = append(call.Items, ci)
	}
	u.calls = append(u.calls, call)
	gate := u.gate
	u.mu.Unlock()
	u.progress.Add(1)

	if gate != nil {
		<-gate
	}
	verifC28Sleep(beh.LatencyUS)

	// emission order: modes 0-2 preserve per-session item order and vary the
	// interleaving of sessions; mode 3 is an arbitrary completion order (items
	// of one session complete out of order, e.g. different channels with
	// different append latencies) -- the contract only promises serialized
	// emits, one per index, none after an emit error
	order := make([]int, 0, len(items))
	switch beh.EmitMode {
	case 0:
		for i := range items {
			order = append(order, i)
		}
	case 3:
		for i := range items {
			order = append(order, i)
		}
		key := func(i int) int {
			if len(beh.EmitKeys) == 0 {
				return -i
			}
			return beh.EmitKeys[i%len(beh.EmitKeys)]
		}
		sort.SliceStable(order, func(a, b int) bool { return key(order[a]) < key(order[b]) })
	default:
		var keys []uint64
		groups := map[uint64][]int{}
		for i, it := range items {
			sid := it.Command.SenderSessionID
			if _, ok := groups[sid]; !ok {
				keys = append(keys, sid)
			}
			groups[sid] = append(groups[sid], i)
		}
		if beh.EmitMode == 1 { // session-major, last session first
			for k := len(keys) - 1; k >= 0; k-- {
				order = append(order, groups[keys[k]]...)
			}
		} else { // round robin
			for more := true; more; {
				more = false
				for _, sid := range keys {
					if g := groups[sid]; len(g) > 0 {
						order = append(order, g[0])
						groups[sid] = g[1:]
						more = true
					}
				}
			}
		}
	}
	var emitErr error
	for pos, i := range order {
		if emitErr != nil {
			break // like the real usecase: nothing is emitted after an emit error
		}
		err := emit(i, results[i])
		u.mu.Lock()
		call.Items[i].Emitted = true
		call.Items[i].EmitPos = pos
		if err != nil {
			call.Items[i].EmitErr = err.Error()
		}
		u.mu.Unlock()
		u.progress.Add(1)
		emitErr = err
	}
	u.mu.Lock()
	for i, it := range items {
		if it.Context != nil && it.Context.Err() != nil {
			call.Items[i].CtxErrAtEnd = it.Context.Err().Error()
		}
	}
	call.EndTick = u.clock.Add(1)
	if emitErr != nil {
		call.Err = emitErr.Error()
	}
	u.mu.Unlock()
	return emitErr
}

type verifC28Observer struct {
	full atomic.Int64
	ok   atomic.Int64
}

func (o *verifC28Observer) OnConnectionOpen(gatewaytypes.ConnectionEvent)   {}
func (o *verifC28Observer) OnConnectionClose(gatewaytypes.ConnectionEvent)  {}
func (o *verifC28Observer) OnAuth(gatewaytypes.AuthEvent)                   {}
func (o *verifC28Observer) OnFrameIn(gatewaytypes.FrameEvent)               {}
func (o *verifC28Observer) OnFrameOut(gatewaytypes.FrameEvent)              {}
func (o *verifC28Observer) OnFrameHandled(gatewaytypes.FrameHandleEvent)    {}
func (o *verifC28Observer) OnAsyncSendAdmission(e gatewaytypes.AsyncSendAdmissionEvent) {
	if e.Result == "ok" {
		o.ok.Add(1)
	} else {
		o.full.Add(1)
	}
}

// ---- recorded history ----

type verifC28Chunk struct {
	StartTick  int64 `json:"start_tick"`
	EndTick    int64 `json:"end_tick"`
	FramesDone int   `json:"frames_done"` // number of frames completely delivered once this chunk returned
}

type verifC28Out struct {
	Type        string `json:"type"`
	ClientSeq   uint64 `json:"client_seq,omitempty"`
	ClientMsgNo string `json:"client_msg_no,omitempty"`
	MsgID       int64  `json:"msg_id,omitempty"`
	Seq         uint64 `json:"seq,omitempty"`
	Reason      uint8  `json:"reason,omitempty"`
}

type verifC28SessRecord struct {
	SessionID      uint64          `json:"session_id"`
	Chunks         []verifC28Chunk `json:"chunks"`
	HarnessClosed  bool            `json:"harness_closed"`
	CloseTick      int64           `json:"close_tick"`
	ClosedAtEnd    bool            `json:"closed_at_end"`
	ClosedAtDrain  bool            `json:"closed_at_drain_begin"`
	PushOK         []uint64        `json:"push_ok"`
	PushErr        int             `json:"push_err"`
	Out            []verifC28Out   `json:"out"`
	LateProbe      bool            `json:"late_probe"`
	ClosedAfterLate bool           `json:"closed_after_late_probe"`
}

type verifC28Drain struct {
	BeginTick  int64  `json:"begin_tick"`
	ReturnTick int64  `json:"return_tick"`
	Short      bool   `json:"short"`
	Err        string `json:"err,omitempty"`
	// measured when the call returned
	UsecaseBlockedAtReturn bool `json:"usecase_blocked_at_return"`
}

type verifC28History struct {
	Params     verifC28Params        `json:"params"`
	Sessions   []*verifC28SessRecord `json:"sessions"`
	Calls      []*verifC28Call       `json:"calls"`
	Drains     []verifC28Drain       `json:"drains"`
	FinalErr   string                `json:"final_err,omitempty"`
	Hung       string                `json:"hung,omitempty"`
	AdmitFull  int64                 `json:"admit_full"`
	AdmitOK    int64                 `json:"admit_ok"`
	StopErr    string                `json:"stop_err,omitempty"`
	DecodeErr  string                `json:"decode_err,omitempty"`
	TrafficUS  int64                 `json:"traffic_us"`
	unjoined   bool
}

func verifC28WaitTimeout() time.Duration {
	return time.Duration(kit.Scale("C28_WAIT_S", 25, 60)) * time.Second
}

func verifC28SendFrame(sess, idx int) *frame.SendPacket {
	return &frame.SendPacket{
		ClientSeq:   uint64(idx + 1),
		ClientMsgNo: fmt.Sprintf("m%d-%d", sess, idx),
		// consecutive SENDs of a session go to different channels / channel kinds
		ChannelID:   fmt.Sprintf("c%d", (idx+sess)%3),
		ChannelType: verifC28ChanType((idx + sess) % 3),
		Payload:     []byte(fmt.Sprintf("p%d-%d", sess, idx)),
	}
}

// verifC28Run executes one workload. gateUsecase (C41) blocks every usecase
// call until the early DrainSends returned.
func verifC28Run(p verifC28Params, gateUsecase bool) *verifC28History {
	var clock atomic.Int64
	h := &verifC28History{Params: p}
	uc := &verifC28Usecase{p: &p, clock: &clock}
	if gateUsecase && p.DrainAt >= 0 {
		uc.gate = make(chan struct{})
	}
	obs := &verifC28Observer{}
	handler := New(Options{Messages: uc, OwnerNodeID: 1})
	factory := testkit.NewFakeTransportFactory("fake")
	proto := &verifC28Proto{Adapter: wkproto.New()}
	registry := core.NewRegistry()
	if err := registry.RegisterTransport(factory); err != nil {
		h.FinalErr = "setup: " + err.Error()
		return h
	}
	if err := registry.RegisterProtocol(proto); err != nil {
		h.FinalErr = "setup: " + err.Error()
		return h
	}
	opts := &gatewaytypes.Options{
		Handler:  handler,
		Observer: obs,
		Runtime: gatewaytypes.RuntimeOptions{
			AsyncSendWorkers:       p.Workers,
			AsyncSendQueueCapacity: p.QueueCap,
		},
		DefaultSession: gatewaytypes.SessionOptions{
			AsyncSendBatchMaxRecords: p.BatchMax,
			IdleTimeout:              time.Hour,
		},
		Listeners: []gatewaytypes.ListenerOptions{{Name: "l", Network: "tcp", Address: "fake:1", Transport: "fake", Protocol: wkproto.Name}},
	}
	switch {
	case p.BatchWaitUS < 0:
		opts.DefaultSession.AsyncSendBatchMaxWait = -1
	case p.BatchWaitUS > 0:
		opts.DefaultSession.AsyncSendBatchMaxWait = time.Duration(p.BatchWaitUS) * time.Microsecond
	}
	srv, err := core.NewServer(registry, opts)
	if err != nil {
		h.FinalErr = "setup: " + err.Error()
		return h
	}
	if err := srv.Start(); err != nil {
		h.FinalErr = "setup: " + err.Error()
		return h
	}
	cdc := codec.New()
	version := uint8(frame.LatestVersion)

	// open every connection first (OnOpen runs synchronously on this goroutine)
	conns := make([]*testkit.FakeConn, len(p.Sessions))
	streams := make([][]byte, len(p.Sessions))
	bounds := make([][]int, len(p.Sessions)) // end offset of every frame
	for i, ss := range p.Sessions {
		conns[i] = factory.MustOpen("l", uint64(i+1))
		sendIdx := 0
		for _, k := range ss.Frames {
			var f frame.Frame
			if k == verifC28FrameSend {
				f = verifC28SendFrame(i, sendIdx)
				sendIdx++
			} else {
				f = &frame.PingPacket{}
			}
			b, err := cdc.EncodeFrame(f, version)
			if err != nil {
				h.FinalErr = "setup: encode: " + err.Error()
				_ = srv.Stop()
				return h
			}
			streams[i] = append(streams[i], b...)
			bounds[i] = append(bounds[i], len(streams[i]))
		}
	}
	proto.mu.Lock()
	sessions := append([]session.Session(nil), proto.sessions...)
	proto.mu.Unlock()
	if len(sessions) != len(p.Sessions) {
		h.FinalErr = "setup: sessions not opened"
		_ = srv.Stop()
		return h
	}
	for i := range p.Sessions {
		h.Sessions = append(h.Sessions, &verifC28SessRecord{SessionID: sessions[i].ID()})
	}

	var histMu sync.Mutex
	var chunkCounter atomic.Int64
	var drainOnce sync.Once
	var wg sync.WaitGroup
	connClosed := func(i int) bool {
		select {
		case <-conns[i].CloseCh():
			return true
		default:
			return false
		}
	}
	startDrain := func() {
		drainOnce.Do(func() {
			wg.Add(1)
			go func() {
				defer wg.Done()
				rec := verifC28Drain{Short: p.DrainShort}
				histMu.Lock()
				for i := range h.Sessions {
					h.Sessions[i].ClosedAtDrain = connClosed(i)
				}
				histMu.Unlock()
				rec.BeginTick = clock.Add(1)
				var ctx context.Context
				var cancel context.CancelFunc
				if p.DrainShort {
					if uc.gate != nil && p.DrainAt > 0 {
						// scheduling aid only: let an already admitted SEND reach the (blocked) usecase
						for i := 0; i < 300 && uc.inflight.Load() == 0; i++ {
							time.Sleep(100 * time.Microsecond)
						}
					}
					ctx, cancel = context.WithDeadline(context.Background(), time.Now().Add(-time.Second))
				} else {
					ctx, cancel = context.WithTimeout(context.Background(), verifC28WaitTimeout())
					uc.openGate()
				}
				err := srv.DrainSends(ctx)
				cancel()
				rec.UsecaseBlockedAtReturn = uc.gate != nil && p.DrainShort && uc.inflight.Load() > 0
				rec.ReturnTick = clock.Add(1)
				if err != nil {
					rec.Err = err.Error()
				}
				histMu.Lock()
				h.Drains = append(h.Drains, rec)
				histMu.Unlock()
				uc.openGate()
			}()
		})
	}

	t0 := time.Now()
	for i := range p.Sessions {
		wg.Add(1)
		go func(i int) {
			defer wg.Done()
			ss := p.Sessions[i]
			rec := h.Sessions[i]
			stream := streams[i]
			offs := []int{}
			for _, c := range ss.Cuts {
				o := len(stream) * c / 1000
				if o > 0 && o < len(stream) && (len(offs) == 0 || o > offs[len(offs)-1]) {
					offs = append(offs, o)
				}
			}
			offs = append(offs, len(stream))
			prev := 0
			for ci, end := range offs {
				if int(chunkCounter.Add(1)-1) == p.DrainAt {
					startDrain()
				}
				if ss.CloseAfter == ci {
					rec.HarnessClosed = true
					rec.CloseTick = clock.Add(1)
					conns[i].EmitClose(nil)
					return
				}
				if len(ss.PauseUS) > 0 {
					verifC28Sleep(ss.PauseUS[ci%len(ss.PauseUS)])
				}
				ch := verifC28Chunk{StartTick: clock.Add(1)}
				_ = conns[i].EmitData(stream[prev:end])
				ch.EndTick = clock.Add(1)
				for ch.FramesDone < len(bounds[i]) && bounds[i][ch.FramesDone] <= end {
					ch.FramesDone++
				}
				rec.Chunks = append(rec.Chunks, ch)
				prev = end
			}
			if ss.CloseAfter >= len(offs) {
				rec.HarnessClosed = true
				rec.CloseTick = clock.Add(1)
				conns[i].EmitClose(nil)
			}
		}(i)
		if p.Sessions[i].Pushes > 0 {
			wg.Add(1)
			go func(i int) {
				defer wg.Done()
				rec := h.Sessions[i]
				for n := 1; n <= p.Sessions[i].Pushes; n++ {
					err := sessions[i].WriteFrame(&frame.RecvPacket{
						MessageID: int64(n), MessageSeq: uint64(n), ChannelID: "g1", ChannelType: frame.ChannelTypeGroup,
						FromUID: "peer", ClientMsgNo: fmt.Sprintf("r%d", n), Payload: []byte("x"),
					})
					histMu.Lock()
					if err == nil {
						rec.PushOK = append(rec.PushOK, uint64(n))
					} else {
						rec.PushErr++
					}
					histMu.Unlock()
					if n%3 == 0 {
						runtime.Gosched()
					}
				}
			}(i)
		}
	}

	joined := make(chan struct{})
	go func() { wg.Wait(); close(joined) }()
	waitJoin := func() bool {
		timer := time.NewTimer(verifC28WaitTimeout())
		defer timer.Stop()
		select {
		case <-joined:
			return true
		case <-timer.C:
			return false
		}
	}
	classifyHang := func() string {
		last := uc.progress.Load()
		for i := 0; i < 200; i++ {
			if uc.inflight.Load() != 0 {
				return "busy"
			}
			time.Sleep(5 * time.Millisecond)
			if now := uc.progress.Load(); now != last {
				return "busy"
			}
		}
		return "quiescent"
	}
	if !waitJoin() {
		h.Hung = classifyHang()
		uc.openGate()
		if !waitJoin() {
			h.unjoined = true
			return h
		}
	}
	total := 0
	for _, s := range p.Sessions {
		total += len(s.Cuts) + 1
	}
	h.TrafficUS = time.Since(t0).Microseconds()

	// final quiescent point
	if p.StopAtEnd {
		uc.openGate()
		begin := clock.Add(1)
		err := srv.Stop()
		d := verifC28Drain{BeginTick: begin, ReturnTick: clock.Add(1)}
		if err != nil {
			d.Err = err.Error()
			h.StopErr = err.Error()
		}
		h.Drains = append(h.Drains, d)
		// Stop only waits its release budget; wait for the drain it started.
		// "No call in flight" alone is not a quiescent point (the next shard may
		// not have reached the usecase yet): every accepted SEND must have been
		// handed to the usecase and every call must have returned.
		pending := func() bool {
			if uc.inflight.Load() != 0 {
				return true
			}
			var seen int64
			uc.mu.Lock()
			for _, c := range uc.calls {
				seen += int64(len(c.Items))
			}
			uc.mu.Unlock()
			return seen < obs.ok.Load() || uc.inflight.Load() != 0
		}
		deadline := time.Now().Add(verifC28WaitTimeout())
		for pending() && time.Now().Before(deadline) {
			time.Sleep(time.Millisecond)
		}
		if pending() {
			h.Hung = classifyHang()
			if h.Hung == "quiescent" {
				h.FinalErr = "Server.Stop returned, accepted SENDs were never handed to the usecase"
			}
		}
	} else {
		uc.openGate()
		ctx, cancel := context.WithTimeout(context.Background(), verifC28WaitTimeout())
		begin := clock.Add(1)
		err := srv.DrainSends(ctx)
		cancel()
		d := verifC28Drain{BeginTick: begin, ReturnTick: clock.Add(1)}
		if err != nil {
			d.Err = err.Error()
			h.FinalErr = err.Error()
			if h.Hung == "" {
				h.Hung = classifyHang()
			}
		}
		h.Drains = append(h.Drains, d)
		if err == nil {
			// after the fence a new SEND is rejected: the session is closed, the usecase never sees it
			for i := range p.Sessions {
				if !connClosed(i) {
					probe := &frame.SendPacket{ClientSeq: 1 << 40, ClientMsgNo: "late-probe", ChannelID: "g1", ChannelType: frame.ChannelTypeGroup, Payload: []byte("late")}
					b, _ := cdc.EncodeFrame(probe, version)
					_ = conns[i].EmitData(b)
					h.Sessions[i].LateProbe = true
					h.Sessions[i].ClosedAfterLate = connClosed(i)
					break
				}
			}
		}
	}
	for i := range p.Sessions {
		h.Sessions[i].ClosedAtEnd = connClosed(i) || h.Sessions[i].LateProbe
	}
	if !p.StopAtEnd {
		if err := srv.Stop(); err != nil {
			h.StopErr = err.Error()
		}
	}

	// decode everything that was written
	for i := range p.Sessions {
		for _, w := range conns[i].Writes() {
			f, n, err := cdc.DecodeFrame(w, version)
			if err != nil || f == nil || n != len(w) {
				h.DecodeErr = fmt.Sprintf("session %d: write of %d bytes does not decode to exactly one frame (n=%d err=%v)", i, len(w), n, err)
				continue
			}
			switch pkt := f.(type) {
			case *frame.SendackPacket:
				h.Sessions[i].Out = append(h.Sessions[i].Out, verifC28Out{Type: "sendack", ClientSeq: pkt.ClientSeq, ClientMsgNo: pkt.ClientMsgNo, MsgID: pkt.MessageID, Seq: pkt.MessageSeq, Reason: uint8(pkt.ReasonCode)})
			case *frame.PongPacket:
				h.Sessions[i].Out = append(h.Sessions[i].Out, verifC28Out{Type: "pong"})
			case *frame.RecvPacket:
				h.Sessions[i].Out = append(h.Sessions[i].Out, verifC28Out{Type: "recv", Seq: pkt.MessageSeq, MsgID: pkt.MessageID})
			default:
				h.Sessions[i].Out = append(h.Sessions[i].Out, verifC28Out{Type: f.GetFrameType().String()})
			}
		}
	}
	uc.mu.Lock()
	h.Calls = uc.calls
	uc.mu.Unlock()
	h.AdmitFull = obs.full.Load()
	h.AdmitOK = obs.ok.Load()
	return h
}

// ---- oracle ----

type verifC28Verdict struct {
	violations      []string
	serverClosed    int // sessions closed although the harness never closed them
	harnessClosed   int
	drainMidBurst   bool
	closeMidBurst   bool
	acks            int
	sends           int
	multiSessionCall bool
	failedItems     int
	collateral      int // sessions closed by the server that never saw a rejected admission of their own
	// measured result-arrival shapes inside one usecase call, per session
	sameSession3    bool // a call carried >= 3 SENDs of one session
	reordered       bool // a result arrived before the result of an earlier SEND of its session (must be buffered)
	behindBuffered  bool // a result arrived whose predecessor had arrived but was itself still buffered behind an outstanding earlier SEND
}

// verifC28EmitShapes classifies the arrival order of one session's results in
// one call. pos[k] = emission position of the session's k-th item in the call,
// or a value larger than every position when it was never emitted.
func verifC28EmitShapes(pos []int) (reordered, behindBuffered bool) {
	for k := 1; k < len(pos); k++ {
		earlierOutstanding := false
		for j := 0; j < k; j++ {
			if pos[j] > pos[k] {
				earlierOutstanding = true
				if j < k-1 && pos[k-1] < pos[k] {
					behindBuffered = true
				}
			}
		}
		if earlierOutstanding {
			reordered = true
		}
	}
	return
}

func (v *verifC28Verdict) fail(format string, args ...any) {
	if len(v.violations) < 12 {
		v.violations = append(v.violations, fmt.Sprintf(format, args...))
	}
}

func verifC28Judge(h *verifC28History) *verifC28Verdict {
	v := &verifC28Verdict{}
	p := h.Params
	if h.Hung == "quiescent" {
		v.fail("admitted SEND work never completed: DrainSends still waiting although the usecase is idle and nothing progresses (%s)", h.FinalErr)
		return v
	}
	if h.Hung != "" || strings.HasPrefix(h.FinalErr, "setup") {
		return v
	}
	if h.DecodeErr != "" {
		v.fail("%s", h.DecodeErr)
	}
	// first DrainSends (early) timing
	var drainBegin, drainReturned int64 = -1, -1
	if len(h.Drains) > 0 {
		drainBegin = h.Drains[0].BeginTick
		drainReturned = h.Drains[0].ReturnTick
	}

	// usecase view: per session, the client sequences in dispatch order
	type seen struct {
		item verifC28CallItem
		call int
	}
	bySession := map[uint64][]seen{}
	calls := append([]*verifC28Call(nil), h.Calls...)
	sort.SliceStable(calls, func(i, j int) bool { return calls[i].StartTick < calls[j].StartTick })
	for _, c := range calls {
		sids := map[uint64]bool{}
		for _, it := range c.Items {
			bySession[it.SessionID] = append(bySession[it.SessionID], seen{it, c.No})
			sids[it.SessionID] = true
			if it.Failed {
				v.failedItems++
			}
		}
		if len(sids) > 1 {
			v.multiSessionCall = true
		}
		perSess := map[uint64][]int{}
		for _, it := range c.Items {
			pos := len(c.Items) + 1
			if it.Emitted {
				pos = it.EmitPos
			}
			perSess[it.SessionID] = append(perSess[it.SessionID], pos)
		}
		for sid := range sids {
			if len(perSess[sid]) >= 3 {
				v.sameSession3 = true
			}
			r, b := verifC28EmitShapes(perSess[sid])
			v.reordered = v.reordered || r
			v.behindBuffered = v.behindBuffered || b
		}
	}

	for i, rec := range h.Sessions {
		ss := p.Sessions[i]
		nSend, nPing := 0, 0
		for _, k := range ss.Frames {
			if k == verifC28FrameSend {
				nSend++
			} else {
				nPing++
			}
		}
		// frames delivered (last byte fed) and the tick at which each was delivered
		delivered := 0
		if len(rec.Chunks) > 0 {
			delivered = rec.Chunks[len(rec.Chunks)-1].FramesDone
		}
		sendsDelivered, pingsDelivered := 0, 0
		sendChunk := []verifC28Chunk{} // chunk that completed the k-th SEND
		fi := 0
		for _, ch := range rec.Chunks {
			for ; fi < ch.FramesDone; fi++ {
				if ss.Frames[fi] == verifC28FrameSend {
					sendsDelivered++
					sendChunk = append(sendChunk, ch)
				} else {
					pingsDelivered++
				}
			}
		}
		_ = delivered
		v.sends += sendsDelivered
		if rec.HarnessClosed {
			v.harnessClosed++
			if sendsDelivered < nSend {
				v.closeMidBurst = true
			}
		} else if rec.ClosedAtEnd && !rec.LateProbe {
			v.serverClosed++
		}
		if drainBegin >= 0 && len(rec.Chunks) > 0 && rec.Chunks[len(rec.Chunks)-1].EndTick > drainBegin && rec.Chunks[0].StartTick < drainBegin {
			v.drainMidBurst = true
		}

		var acks, recvs []verifC28Out
		pongs := 0
		for _, o := range rec.Out {
			switch o.Type {
			case "sendack":
				acks = append(acks, o)
			case "pong":
				pongs++
			case "recv":
				recvs = append(recvs, o)
			default:
				v.fail("session %d: unexpected outbound frame %s", i, o.Type)
			}
		}
		v.acks += len(acks)

		// SENDACKs: a prefix of the SEND sequence -- one each, in order, none invented
		if len(acks) > sendsDelivered {
			v.fail("session %d: %d SENDACKs written for %d SENDs delivered", i, len(acks), sendsDelivered)
		}
		for k, a := range acks {
			want := verifC28SendFrame(i, k)
			if a.ClientSeq != want.ClientSeq || a.ClientMsgNo != want.ClientMsgNo {
				v.fail("session %d: SENDACK #%d is for (seq %d, %s), the #%d SEND was (seq %d, %s) -- acks must follow send order, one per send", i, k+1, a.ClientSeq, a.ClientMsgNo, k+1, want.ClientSeq, want.ClientMsgNo)
				break
			}
		}
		// what the usecase saw for this session: 1,2,3,... without gaps or repeats
		for k, s := range bySession[rec.SessionID] {
			if s.item.ClientSeq != uint64(k+1) {
				v.fail("session %d: the usecase received client seq %d as the #%d SEND of the session (call %d) -- dispatch must be FIFO and exactly once", i, s.item.ClientSeq, k+1, s.call)
				break
			}
		}
		if len(bySession[rec.SessionID]) > sendsDelivered {
			v.fail("session %d: usecase saw %d SENDs, only %d were delivered", i, len(bySession[rec.SessionID]), sendsDelivered)
		}
		// every SENDACK carries the result the usecase produced for that very item
		for k, a := range acks {
			if k >= len(bySession[rec.SessionID]) {
				v.fail("session %d: SENDACK for client seq %d although the usecase never received that SEND", i, a.ClientSeq)
				break
			}
			it := bySession[rec.SessionID][k].item
			if it.ClientSeq != a.ClientSeq {
				break // already reported above
			}
			if !it.Emitted {
				v.fail("session %d: SENDACK for client seq %d written although the usecase never emitted its result", i, a.ClientSeq)
			}
			if uint8(a.Reason) != it.Reason || uint64(a.MsgID) != it.MsgID || a.Seq != it.Seq {
				v.fail("session %d client seq %d: SENDACK (id %d seq %d reason %d) differs from the usecase result for that item (id %d seq %d reason %d)", i, a.ClientSeq, a.MsgID, a.Seq, a.Reason, it.MsgID, it.Seq, it.Reason)
			}
		}
		// frames issued through the session's WriteFrame appear in issue order
		if len(recvs) != len(rec.PushOK) {
			v.fail("session %d: %d pushed frames on the wire, %d WriteFrame calls returned nil", i, len(recvs), len(rec.PushOK))
		} else {
			for k := range recvs {
				if recvs[k].Seq != rec.PushOK[k] {
					v.fail("session %d: pushed frames out of issue order on the wire: position %d carries %d, issued %d", i, k, recvs[k].Seq, rec.PushOK[k])
					break
				}
			}
		}
		if pongs > pingsDelivered {
			v.fail("session %d: %d PONGs for %d PINGs", i, pongs, pingsDelivered)
		}

		// a session that is still open at the quiescent point got every ack
		open := !rec.ClosedAtEnd || rec.LateProbe
		if open && !p.StopAtEnd {
			if len(acks) != sendsDelivered {
				v.fail("session %d stayed open: %d SENDs delivered, %d SENDACKs written after DrainSends returned nil", i, sendsDelivered, len(acks))
			}
			if pongs != pingsDelivered {
				v.fail("session %d stayed open: %d PINGs, %d PONGs", i, pingsDelivered, pongs)
			}
			if rec.PushErr != 0 {
				v.fail("session %d stayed open but %d WriteFrame calls failed", i, rec.PushErr)
			}
			for _, s := range bySession[rec.SessionID] {
				if s.item.CtxErrAtEnd != "" {
					v.fail("session %d stayed open, yet the request context of client seq %d was cancelled (%s)", i, s.item.ClientSeq, s.item.CtxErrAtEnd)
					break
				}
			}
		}
		if rec.LateProbe && !rec.ClosedAfterLate {
			v.fail("session %d: a SEND after DrainSends returned nil was not rejected (session still open)", i)
		}
		// drain fence: a SEND delivered after an earlier DrainSends call had returned is never dispatched
		if drainReturned >= 0 {
			limit := len(sendChunk)
			for k := 0; k < len(sendChunk); k++ {
				if sendChunk[k].StartTick > drainReturned {
					limit = k
					break
				}
			}
			if len(bySession[rec.SessionID]) > limit {
				v.fail("session %d: SEND #%d was delivered after DrainSends had returned, yet it reached the usecase", i, limit+1)
			}
			// admitted before the fence (delivered before DrainSends began, session open then): it still completes
			if !rec.ClosedAtDrain {
				admitted := 0
				for k := 0; k < len(sendChunk); k++ {
					if sendChunk[k].EndTick < drainBegin {
						admitted = k + 1
					}
				}
				if rec.HarnessClosed && rec.CloseTick < drainBegin {
					admitted = 0
				}
				if open && len(acks) < admitted {
					v.fail("session %d: %d SENDs were admitted before DrainSends began but only %d were acknowledged", i, admitted, len(acks))
				}
			}
		}
	}
	// nothing went wrong in this run (no peer close, no rejected admission, no
	// early fence): the server has no reason to close any session
	probes := int64(0)
	for _, rec := range h.Sessions {
		if rec.LateProbe {
			probes++
		}
	}
	if v.harnessClosed == 0 && h.AdmitFull-probes <= 0 && p.DrainAt < 0 && !p.StopAtEnd && v.serverClosed > 0 {
		v.fail("%d healthy session(s) were closed by the server although no peer closed, no admission was rejected and no fence was raised", v.serverClosed)
	}
	if v.serverClosed > 0 && h.AdmitFull-probes <= 0 {
		v.collateral = v.serverClosed
	}
	for _, c := range h.Calls {
		for _, it := range c.Items {
			if it.ClientMsgNo == "late-probe" {
				v.fail("a SEND issued after DrainSends returned nil reached the usecase")
			}
		}
	}
	for _, rec := range h.Sessions {
		if _, ok := bySession[rec.SessionID]; ok {
			continue
		}
	}
	return v
}

func verifC28Fail(rt *rapid.T, prop, test string, h any, violations []string) {
	b, _ := json.MarshalIndent(map[string]any{"violations": violations, "history": h}, "", " ")
	path := kit.SaveReplay(prop, test, "json", b)
	rt.Fatalf("%s violated (recorded history: %s):\n  %s", prop, path, strings.Join(violations, "\n  "))
}

func TestVerifC28SendackOrder(t *testing.T) {
	col := kit.For(t, "C28")
	kit.Check(t, "C28", func(rt *rapid.T, k *kit.Case) {
		p := verifC28Gen(rt, false)
		h := verifC28Run(p, false)
		if h.unjoined {
			fmt.Println("VERIF-MACHINERY: C28 harness could not join its goroutines")
			t.Fatalf("VERIF-MACHINERY: goroutines not joined")
		}
		if strings.HasPrefix(h.FinalErr, "setup") {
			fmt.Println("VERIF-MACHINERY: C28 setup failed: " + h.FinalErr)
			t.Fatalf("VERIF-MACHINERY: %s", h.FinalErr)
		}
		v := verifC28Judge(h)
		if len(v.violations) > 0 {
			verifC28Fail(rt, "C28", t.Name(), h, v.violations)
		}
		if h.Hung != "" {
			col.Inconclusive("deadline while busy")
			rt.Skip("inconclusive")
		}
		b, _ := json.Marshal(p)
		k.Key(string(b))
		saturated := h.AdmitFull > 0 && (len(h.Drains) < 2 || v.serverClosed > 0)
		k.SetNonTrivial(saturated || v.drainMidBurst || v.closeMidBurst)
		k.LabelIf(h.AdmitFull > 1 || (h.AdmitFull > 0 && v.serverClosed > 0), "SEND admission rejected mid-run (queue full or fenced)")
		k.LabelIf(h.AdmitFull > 0 && len(h.Drains) < 2 && v.serverClosed > 0, "queue saturated (burst larger than the queue)")
		k.LabelIf(v.serverClosed > 0, "session closed by the server")
		k.LabelIf(v.closeMidBurst, "connection closed mid-burst")
		k.LabelIf(v.drainMidBurst, "DrainSends mid-burst")
		k.LabelIf(len(h.Drains) > 1 && h.Drains[0].Err != "", "early DrainSends hit its deadline")
		k.LabelIf(v.multiSessionCall, "usecase batch mixes sessions")
		k.LabelIf(v.collateral > 0, "sessions closed as collateral of another session's close (same micro-batch)")
		col.AddExtra("collateral_closed_sessions", int64(v.collateral))
		k.LabelIf(v.failedItems > 0, "usecase failed items")
		k.LabelIf(v.sameSession3, "usecase batch carried >=3 SENDs of one session")
		k.LabelIf(v.reordered, "a result arrived before an earlier SEND's result of the same session (handler must buffer)")
		k.LabelIf(v.behindBuffered, "a result arrived while its predecessor was buffered behind a still outstanding SEND")
		k.LabelIf(v.acks > 0 && v.acks == v.sends, "every delivered SEND acknowledged")
		k.LabelIf(len(p.Sessions) > 1, "multiple sessions")
		if kit.Scale("C28_DEBUG", 0, 0) == 1 {
			fmt.Printf("C28DBG cap=%d workers=%d drainAt=%d sessions=%d serverClosed=%d harnessClosed=%d full=%d sends=%d acks=%d calls=%d traffic=%d\n", p.QueueCap, p.Workers, p.DrainAt, len(p.Sessions), v.serverClosed, v.harnessClosed, h.AdmitFull, v.sends, v.acks, len(h.Calls), h.TrafficUS)
		}
		col.AddExtra("traffic_us", h.TrafficUS)
		col.AddExtra("sends", int64(v.sends))
		col.AddExtra("sendacks", int64(v.acks))
		k.Sample(func() any {
			return fmt.Sprintf("sessions=%d workers=%d cap=%d sends=%d acks=%d calls=%d admitFull=%d serverClosed=%d", len(p.Sessions), p.Workers, p.QueueCap, v.sends, v.acks, len(h.Calls), h.AdmitFull, v.serverClosed)
		})
	})
}
