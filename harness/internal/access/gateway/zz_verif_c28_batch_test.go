package gateway

// C28 — SENDACKs are written in SEND order whatever order the results arrive in.
//
// The async send path hands one micro-batch (SENDs of several sessions, each
// session's SENDs in FIFO order) to Handler.OnSendBatch. The message usecase
// behind it completes the items in an arbitrary order (SendBatchEach: "Indexes
// may arrive out of input order, emit is never called concurrently"), so the
// handler's per-session reorder buffer is the only thing that keeps the
// SENDACKs of one session in SEND order. This test drives the real
// OnSendBatch directly (no scheduler in between, fully deterministic) with
// generated batches and generated completion orders and judges everything the
// sessions were asked to write.

import (
	"context"
	"encoding/json"
	"errors"
	"fmt"
	"sort"
	"strings"
	"testing"

	"github.com/WuKongIM/WuKongIM/internal/usecase/message"
	coregateway "github.com/WuKongIM/WuKongIM/pkg/gateway"
	"github.com/WuKongIM/WuKongIM/pkg/gateway/session"
	"github.com/WuKongIM/WuKongIM/pkg/protocol/frame"
	"pgregory.net/rapid"
	"verif.local/kit"
)

type verifC28BSess struct {
	Unauth      bool `json:"unauth"`        // no uid on the session: every SEND is answered by the handler itself (auth fail)
	FailWriteAt int  `json:"fail_write_at"` // the session's k-th write (0-based) and all later ones fail (peer gone); -1 never
}

type verifC28BItem struct {
	Sess  int  `json:"sess"`
	Chan  int  `json:"chan"`
	NoCtx bool `json:"no_ctx"` // item without request context: answered by the handler itself (system error)
	Fail  int  `json:"fail"`   // 0 success, k>0: the usecase result carries verifC28FailErrs[k-1]
}

type verifC28BParams struct {
	Sessions []verifC28BSess `json:"sessions"`
	Items    []verifC28BItem `json:"items"`
	// completion order of the items handed to the usecase (indexes into that
	// slice, a permutation)
	Order     []int  `json:"order"`
	OrderKind string `json:"order_kind"`
}

func verifC28BValid(p verifC28BParams) []int {
	var valid []int
	for i, it := range p.Items {
		if !p.Sessions[it.Sess].Unauth && !it.NoCtx {
			valid = append(valid, i)
		}
	}
	return valid
}

func verifC28BGen(rt *rapid.T) verifC28BParams {
	p := verifC28BParams{}
	nSess := rapid.SampledFrom([]int{1, 1, 2, 2, 3, 4}).Draw(rt, "sessions")
	// SENDs the handler answers itself are the exception on a real gateway
	selfAnswered := rapid.IntRange(0, 3).Draw(rt, "selfAnswered") == 0
	for s := 0; s < nSess; s++ {
		ss := verifC28BSess{FailWriteAt: -1}
		if selfAnswered && rapid.IntRange(0, 5).Draw(rt, "unauth") == 0 {
			ss.Unauth = true
		}
		if rapid.IntRange(0, 7).Draw(rt, "peerGone") == 0 {
			ss.FailWriteAt = rapid.IntRange(0, 4).Draw(rt, "failWriteAt")
		}
		p.Sessions = append(p.Sessions, ss)
	}
	nChan := rapid.IntRange(1, 4).Draw(rt, "channels")
	// (a slice generator, so that rapid can shrink by dropping whole items)
	p.Items = rapid.SliceOfN(rapid.Custom(func(rt *rapid.T) verifC28BItem {
		it := verifC28BItem{Sess: rapid.IntRange(0, nSess-1).Draw(rt, "sess"), Chan: rapid.IntRange(0, nChan-1).Draw(rt, "chan")}
		if selfAnswered && rapid.IntRange(0, 7).Draw(rt, "noCtx") == 0 {
			it.NoCtx = true
		}
		if rapid.IntRange(0, 5).Draw(rt, "fails") == 0 {
			it.Fail = rapid.IntRange(1, len(verifC28FailErrs)).Draw(rt, "failKind")
		}
		return it
	}), 1, 12).Draw(rt, "items")
	valid := verifC28BValid(p)
	idx := make([]int, len(valid))
	for i := range idx {
		idx[i] = i
	}
	switch rapid.SampledFrom([]string{"input", "reversed", "permutation", "permutation", "channel-latency", "channel-latency"}).Draw(rt, "orderKind") {
	case "input":
		p.OrderKind, p.Order = "input", idx
	case "reversed":
		p.OrderKind = "reversed"
		for i := len(idx) - 1; i >= 0; i-- {
			p.Order = append(p.Order, i)
		}
	case "permutation":
		p.OrderKind = "permutation"
		if len(idx) > 0 {
			p.Order = rapid.Permutation(idx).Draw(rt, "order")
		}
	default:
		// every channel has its own append latency; an item completes when its
		// channel does (stable among equals)
		p.OrderKind = "channel-latency"
		lat := make([]int, nChan)
		for c := range lat {
			lat[c] = rapid.IntRange(0, 3).Draw(rt, "chanLatency")
		}
		p.Order = idx
		sort.SliceStable(p.Order, func(a, b int) bool {
			return lat[p.Items[valid[p.Order[a]]].Chan] < lat[p.Items[valid[p.Order[b]]].Chan]
		})
	}
	return p
}

type verifC28BEvent struct {
	Kind  string `json:"kind"` // "emit" (result of batch item Item arrives), "write" / "write-failed" (SENDACK on session Sess)
	Item  int    `json:"item"` // batch index (emit) or -1
	Sess  int    `json:"sess"`
	Seq   uint64 `json:"client_seq,omitempty"`
	MsgNo string `json:"client_msg_no,omitempty"`
	MsgID int64  `json:"msg_id,omitempty"`
	MSeq  uint64 `json:"msg_seq,omitempty"`
	Code  uint8  `json:"reason,omitempty"`
	Other string `json:"other,omitempty"`
}

type verifC28BHistory struct {
	Params    verifC28BParams  `json:"params"`
	Events    []verifC28BEvent `json:"events"`
	Err       string           `json:"err,omitempty"`
	UsecaseIn []string         `json:"usecase_in"` // what the usecase received, "sess/clientSeq"
	Calls     int              `json:"usecase_calls"`
}

type verifC28BUsecase struct {
	p     *verifC28BParams
	valid []int
	h     *verifC28BHistory
	sids  []uint64
}

var errVerifC28BPeerGone = errors.New("verif: peer gone")

func verifC28BResult(p *verifC28BParams, item int) message.SendBatchItemResult {
	if f := p.Items[item].Fail; f > 0 {
		return message.SendBatchItemResult{Err: verifC28FailErrs[f-1]}
	}
	return message.SendBatchItemResult{Result: message.SendResult{MessageID: uint64(9000 + item), MessageSeq: uint64(item + 1), Reason: message.ReasonSuccess}}
}

func (u *verifC28BUsecase) SendBatchEach(items []message.SendBatchItem, emit func(int, message.SendBatchItemResult) error) error {
	u.h.Calls++
	for _, it := range items {
		s := -1
		for i, sid := range u.sids {
			if sid == it.Command.SenderSessionID {
				s = i
			}
		}
		u.h.UsecaseIn = append(u.h.UsecaseIn, fmt.Sprintf("%d/%d", s, it.Command.ClientSeq))
	}
	if len(items) != len(u.valid) {
		return nil // judged through UsecaseIn
	}
	for _, j := range u.p.Order {
		item := u.valid[j]
		u.h.Events = append(u.h.Events, verifC28BEvent{Kind: "emit", Item: item, Sess: u.p.Items[item].Sess})
		if err := emit(j, verifC28BResult(u.p, item)); err != nil {
			return err // like the real usecase: nothing is emitted after an emit error
		}
	}
	return nil
}

// verifC28ChanType: odd channels are person channels, even ones groups (SEND
// order on a session is independent of where the SENDs go).
func verifC28ChanType(ch int) uint8 {
	if ch%2 == 1 {
		return frame.ChannelTypePerson
	}
	return frame.ChannelTypeGroup
}

func verifC28BFrame(sess, k, ch int) *frame.SendPacket {
	return &frame.SendPacket{
		ClientSeq:   uint64(k + 1),
		ClientMsgNo: fmt.Sprintf("b%d-%d", sess, k),
		ChannelID:   fmt.Sprintf("c%d", ch),
		ChannelType: verifC28ChanType(ch),
		Payload:     []byte("x"),
	}
}

func verifC28BRun(p verifC28BParams) *verifC28BHistory {
	h := &verifC28BHistory{Params: p}
	uc := &verifC28BUsecase{p: &p, valid: verifC28BValid(p), h: h}
	sessions := make([]session.Session, len(p.Sessions))
	for s := range p.Sessions {
		s := s
		writes := 0
		sessions[s] = session.New(session.Config{
			ID: uint64(100 + s),
			WriteFrameFn: func(f frame.Frame, _ session.OutboundMeta) error {
				n := writes
				writes++
				ev := verifC28BEvent{Kind: "write", Item: -1, Sess: s}
				if ack, ok := f.(*frame.SendackPacket); ok {
					ev.Seq, ev.MsgNo, ev.MsgID, ev.MSeq, ev.Code = ack.ClientSeq, ack.ClientMsgNo, ack.MessageID, ack.MessageSeq, uint8(ack.ReasonCode)
				} else {
					ev.Other = fmt.Sprintf("%T", f)
				}
				if at := p.Sessions[s].FailWriteAt; at >= 0 && n >= at {
					ev.Kind = "write-failed"
					h.Events = append(h.Events, ev)
					return errVerifC28BPeerGone
				}
				h.Events = append(h.Events, ev)
				return nil
			},
		})
		if !p.Sessions[s].Unauth {
			sessions[s].SetValue(coregateway.SessionValueUID, fmt.Sprintf("u%d", s))
		}
		uc.sids = append(uc.sids, sessions[s].ID())
	}
	handler := New(Options{Messages: uc, OwnerNodeID: 1})
	perSess := make([]int, len(p.Sessions))
	items := make([]coregateway.SendBatchItem, 0, len(p.Items))
	for i, it := range p.Items {
		ctx := coregateway.Context{Session: sessions[it.Sess]}
		if !it.NoCtx {
			ctx.RequestContext = context.Background()
		}
		items = append(items, coregateway.SendBatchItem{Context: ctx, Frame: verifC28BFrame(it.Sess, perSess[it.Sess], it.Chan), Index: i})
		perSess[it.Sess]++
	}
	if err := handler.OnSendBatch(items); err != nil {
		h.Err = err.Error()
	}
	return h
}

type verifC28BVerdict struct {
	violations     []string
	sameSession3   bool
	reordered      bool
	behindBuffered bool
	prechecked     int
	writeFailed    bool
	mixedSessions  bool
	acks           int
}

func (v *verifC28BVerdict) fail(format string, args ...any) {
	if len(v.violations) < 12 {
		v.violations = append(v.violations, fmt.Sprintf(format, args...))
	}
}

func verifC28BJudge(h *verifC28BHistory) *verifC28BVerdict {
	v := &verifC28BVerdict{}
	p := h.Params
	valid := verifC28BValid(p)
	isValid := map[int]bool{}
	for _, i := range valid {
		isValid[i] = true
	}
	v.prechecked = len(p.Items) - len(valid)

	// the session's SENDs, in SEND order: batch index of each
	bySess := make([][]int, len(p.Sessions))
	for i, it := range p.Items {
		bySess[it.Sess] = append(bySess[it.Sess], i)
	}
	used := 0
	for _, l := range bySess {
		if len(l) > 0 {
			used++
		}
		if len(l) >= 3 {
			v.sameSession3 = true
		}
	}
	v.mixedSessions = used > 1

	// the usecase got exactly the items the handler cannot answer itself, once, in batch order
	var wantIn []string
	kOf := make([]int, len(p.Items)) // position of the item among its session's SENDs
	cnt := make([]int, len(p.Sessions))
	for i, it := range p.Items {
		kOf[i] = cnt[it.Sess]
		cnt[it.Sess]++
		if isValid[i] {
			wantIn = append(wantIn, fmt.Sprintf("%d/%d", it.Sess, kOf[i]+1))
		}
	}
	if h.Calls > 1 {
		v.fail("the usecase was called %d times for one batch", h.Calls)
	}
	if h.Calls == 1 && fmt.Sprint(h.UsecaseIn) != fmt.Sprint(wantIn) && !(len(wantIn) == 0 && len(h.UsecaseIn) == 0) {
		v.fail("the usecase received %v, the batch's dispatchable SENDs (session/clientSeq, batch order) are %v -- every dispatched SEND exactly once, in order", h.UsecaseIn, wantIn)
	}

	// replay the event log
	arrived := make([]bool, len(p.Items))
	for i := range p.Items {
		arrived[i] = !isValid[i] // answered by the handler itself: known from the start
	}
	written := make([]int, len(p.Sessions)) // SENDACKs successfully written per session
	anyWriteFailed := false
	outOfOrder := make([]bool, len(p.Sessions))
	emitPos := make([]int, len(p.Items))
	for i := range emitPos {
		emitPos[i] = len(p.Items) + 1
		if !isValid[i] {
			emitPos[i] = -1
		}
	}
	nEmit := 0
	for _, ev := range h.Events {
		switch ev.Kind {
		case "emit":
			arrived[ev.Item] = true
			emitPos[ev.Item] = nEmit
			nEmit++
		case "write", "write-failed":
			s := ev.Sess
			if ev.Other != "" {
				v.fail("session %d: unexpected outbound frame %s", s, ev.Other)
				continue
			}
			k := written[s]
			if ev.Kind == "write-failed" {
				anyWriteFailed = true
			}
			if outOfOrder[s] {
				continue
			}
			if k >= len(bySess[s]) {
				v.fail("session %d: SENDACK (seq %d, %s) written although all %d SENDs of the session were already acknowledged -- exactly one SENDACK per SEND", s, ev.Seq, ev.MsgNo, len(bySess[s]))
				continue
			}
			item := bySess[s][k]
			want := verifC28BFrame(s, k, p.Items[item].Chan)
			if ev.Seq != want.ClientSeq || ev.MsgNo != want.ClientMsgNo {
				v.fail("session %d: SENDACK #%d is for (seq %d, %s), the #%d SEND was (seq %d, %s) -- acks must follow send order, one per send", s, k+1, ev.Seq, ev.MsgNo, k+1, want.ClientSeq, want.ClientMsgNo)
				outOfOrder[s] = true // reported once per session
				continue
			}
			if !arrived[item] {
				v.fail("session %d: SENDACK for client seq %d written before the usecase produced its result", s, ev.Seq)
			}
			var wantCode frame.ReasonCode
			var wantID int64
			var wantSeq uint64
			switch {
			case p.Sessions[s].Unauth:
				wantCode = frame.ReasonAuthFail
			case p.Items[item].NoCtx:
				wantCode = mapReason(message.ReasonSystemError)
			default:
				r := verifC28BResult(&p, item)
				if r.Err != nil {
					wantCode = mapReason(reasonForError(r.Err))
				} else {
					wantCode, wantID, wantSeq = frame.ReasonSuccess, int64(r.Result.MessageID), r.Result.MessageSeq
				}
			}
			if ev.Code != uint8(wantCode) || ev.MsgID != wantID || ev.MSeq != wantSeq {
				v.fail("session %d client seq %d: SENDACK (id %d seq %d reason %d) differs from the result of that SEND (id %d seq %d reason %d)", s, ev.Seq, ev.MsgID, ev.MSeq, ev.Code, wantID, wantSeq, wantCode)
			}
			if ev.Kind == "write" {
				written[s]++
			}
		}
	}
	v.writeFailed = anyWriteFailed
	for _, n := range written {
		v.acks += n
	}
	if !anyWriteFailed && len(valid) > 0 && h.Calls == 0 {
		// (a failed write of a handler-answered SENDACK aborts the batch before the usecase is reached)
		v.fail("the usecase was never called for a batch with %d dispatchable SENDs", len(valid))
	}
	if !anyWriteFailed {
		// no session went away and the usecase honoured its contract: the batch
		// succeeds and every SEND has its SENDACK
		if h.Err != "" {
			v.fail("OnSendBatch failed (%s) although every write succeeded and the usecase emitted one result per item", h.Err)
		}
		for s := range p.Sessions {
			if written[s] != len(bySess[s]) && !outOfOrder[s] {
				v.fail("session %d: %d SENDs in the batch, %d SENDACKs written when OnSendBatch returned (err=%q)", s, len(bySess[s]), written[s], h.Err)
			}
		}
	} else if h.Err == "" {
		v.fail("OnSendBatch returned nil although a SENDACK write failed (the caller must learn that the batch did not complete)")
	}

	for s := range p.Sessions {
		pos := make([]int, 0, len(bySess[s]))
		for _, item := range bySess[s] {
			pos = append(pos, emitPos[item])
		}
		r, b := verifC28EmitShapes(pos)
		v.reordered = v.reordered || r
		v.behindBuffered = v.behindBuffered || b
	}
	return v
}

func TestVerifC28BatchReorder(t *testing.T) {
	kit.Check(t, "C28", func(rt *rapid.T, k *kit.Case) {
		p := verifC28BGen(rt)
		h := verifC28BRun(p)
		v := verifC28BJudge(h)
		if len(v.violations) > 0 {
			// deterministic test: the rapid fail file replays it exactly. The
			// failure text must not vary between runs of the same input (rapid
			// gives up shrinking otherwise), so the history goes to the log.
			hb, _ := json.Marshal(h)
			rt.Logf("recorded history: %s", hb)
			rt.Fatalf("C28 violated:\n  %s", strings.Join(v.violations, "\n  "))
		}
		b, _ := json.Marshal(p)
		k.Key("batch:" + string(b))
		// the quantifier's "handler latencies and failures": results that do not
		// arrive in SEND order, or a session that goes away inside the batch
		k.SetNonTrivial(v.reordered || v.writeFailed)
		k.LabelIf(v.sameSession3, "batch: >=3 SENDs of one session in the batch")
		k.LabelIf(v.mixedSessions, "batch: several sessions in the batch")
		k.LabelIf(v.reordered, "batch: a result arrived before an earlier SEND's result of the same session (handler must buffer)")
		k.LabelIf(v.behindBuffered, "batch: a result arrived while its predecessor was buffered behind a still outstanding SEND")
		k.LabelIf(v.prechecked > 0, "batch: SENDs answered by the handler itself (unauthenticated / no request context)")
		k.LabelIf(v.prechecked > 0 && v.reordered, "batch: handler-answered SENDs and out-of-order results in one batch")
		k.LabelIf(v.writeFailed, "batch: a SENDACK write failed (peer gone)")
		k.Label("batch: completion order " + p.OrderKind)
		k.Sample(func() any {
			return fmt.Sprintf("batch sessions=%d items=%d order=%s %v acks=%d err=%q", len(p.Sessions), len(p.Items), p.OrderKind, p.Order, v.acks, h.Err)
		})
	})
}
