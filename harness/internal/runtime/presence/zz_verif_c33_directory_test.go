package presence

import (
	"errors"
	"fmt"
	"sort"
	"strings"
	"testing"
	"time"

	"pgregory.net/rapid"
	"verif.local/kit"
)

// ---------------------------------------------------------------------------
// Reference model of the authority directory, written from FLOW.md
// (Authority Fencing / Register And Conflicts / Owner Sequence Fencing /
// Touch And TTL / Diagnostics). Plain maps, no indexes, no heap.
// ---------------------------------------------------------------------------

type verifC33ID struct {
	uid              string
	node, boot, sess uint64
}

func (i verifC33ID) String() string {
	return fmt.Sprintf("%s@n%d.b%d.s%d", i.uid, i.node, i.boot, i.sess)
}

func verifC33IDOf(r Route) verifC33ID {
	return verifC33ID{uid: r.UID, node: r.OwnerNodeID, boot: r.OwnerBootID, sess: r.SessionID}
}

type verifC33Pending struct {
	route     Route
	conflicts map[verifC33ID]bool
}

type verifC33Slot struct {
	target   RouteTarget
	active   map[verifC33ID]Route
	pending  map[PendingRouteToken]verifC33Pending
	ownerSeq map[verifC33ID]uint64
	tomb     map[verifC33ID]uint64
}

type verifC33Model struct {
	local        uint64
	slots        map[uint16]*verifC33Slot
	touchTotal   uint64
	expiredTotal uint64
}

func verifC33SameAuthority(a, b RouteTarget) bool {
	return a.HashSlot == b.HashSlot && a.SlotID == b.SlotID && a.LeaderNodeID == b.LeaderNodeID &&
		a.LeaderTerm == b.LeaderTerm && a.ConfigEpoch == b.ConfigEpoch
}

func verifC33NewSlot(t RouteTarget) *verifC33Slot {
	return &verifC33Slot{target: t, active: map[verifC33ID]Route{}, pending: map[PendingRouteToken]verifC33Pending{},
		ownerSeq: map[verifC33ID]uint64{}, tomb: map[verifC33ID]uint64{}}
}

// become reports whether a fresh incarnation was installed.
func (m *verifC33Model) become(t RouteTarget) bool {
	cur := m.slots[t.HashSlot]
	if cur != nil && verifC33SameAuthority(cur.target, t) {
		if t.RouteRevision >= cur.target.RouteRevision {
			cur.target = t
		}
		return false
	}
	m.slots[t.HashSlot] = verifC33NewSlot(t)
	return true
}

func (m *verifC33Model) lose(hs uint16) { delete(m.slots, hs) }

// fence returns the slot an operation with this target acts on, or nil when
// the target is not the installed authority.
func (m *verifC33Model) fence(t RouteTarget) *verifC33Slot {
	if m.local != 0 && t.LeaderNodeID != m.local {
		return nil
	}
	s := m.slots[t.HashSlot]
	if s == nil || !verifC33SameAuthority(s.target, t) {
		return nil
	}
	return s
}

func verifC33Seen(r Route) Route {
	if r.LastSeenUnix == 0 {
		r.LastSeenUnix = r.ConnectedUnix
	}
	return r
}

func verifC33Conflict(incoming, existing Route) bool {
	if incoming.UID != existing.UID || incoming.DeviceFlag != existing.DeviceFlag {
		return false
	}
	switch incoming.DeviceLevel {
	case 1: // master replaces every route of the same device category
		return true
	case 0: // slave replaces only the same device
		return incoming.DeviceID == existing.DeviceID
	}
	return false
}

func (s *verifC33Slot) conflicts(r Route) map[verifC33ID]bool {
	out := map[verifC33ID]bool{}
	self := verifC33IDOf(r)
	for id, ex := range s.active {
		if id != self && verifC33Conflict(r, ex) {
			out[id] = true
		}
	}
	return out
}

func (s *verifC33Slot) fencedBySeq(r Route) bool {
	id := verifC33IDOf(r)
	if t := s.tomb[id]; t > 0 && r.OwnerSeq <= t {
		return true
	}
	return r.OwnerSeq < s.ownerSeq[id]
}

// register returns (pending?, conflicts, err)
func (s *verifC33Slot) register(r Route) (bool, map[verifC33ID]bool, error) {
	if s.fencedBySeq(r) {
		return false, nil, ErrStaleRoute
	}
	id := verifC33IDOf(r)
	s.ownerSeq[id] = r.OwnerSeq
	r = verifC33Seen(r)
	c := s.conflicts(r)
	if len(c) == 0 {
		s.active[id] = r
		return false, nil, nil
	}
	return true, c, nil
}

func (s *verifC33Slot) commit(tok PendingRouteToken) error {
	p, ok := s.pending[tok]
	if !ok {
		return ErrRouteNotReady
	}
	if s.fencedBySeq(p.route) {
		delete(s.pending, tok)
		return ErrStaleRoute
	}
	for id := range s.conflicts(p.route) {
		if !p.conflicts[id] {
			return ErrRouteNotReady
		}
	}
	for id := range p.conflicts {
		delete(s.active, id)
	}
	s.active[verifC33IDOf(p.route)] = p.route
	delete(s.pending, tok)
	return nil
}

func (s *verifC33Slot) unregister(id verifC33ID, seq uint64) {
	if seq > s.tomb[id] {
		s.tomb[id] = seq
	}
	if seq > s.ownerSeq[id] {
		s.ownerSeq[id] = seq
	}
	if ex, ok := s.active[id]; ok && ex.OwnerSeq <= seq {
		delete(s.active, id)
	}
	for tok, p := range s.pending {
		if verifC33IDOf(p.route) == id && p.route.OwnerSeq <= seq {
			delete(s.pending, tok)
		}
	}
}

func (s *verifC33Slot) touch(r Route) {
	if r.UID == "" || s.fencedBySeq(r) {
		return
	}
	id := verifC33IDOf(r)
	s.ownerSeq[id] = r.OwnerSeq
	r = verifC33Seen(r)
	if ex, ok := s.active[id]; ok {
		if r.LastSeenUnix < ex.LastSeenUnix {
			r.LastSeenUnix = ex.LastSeenUnix
		}
		s.active[id] = r
		return
	}
	if len(s.conflicts(r)) != 0 {
		return
	}
	s.active[id] = r
}

// expire removes exactly the routes idle for longer than ttl.
func (m *verifC33Model) expire(now time.Time, ttl time.Duration) (removed []verifC33ID) {
	if ttl <= 0 || now.IsZero() {
		return nil
	}
	for _, s := range m.slots {
		for id, r := range s.active {
			if r.LastSeenUnix == 0 {
				continue // no activity time: never expires
			}
			deadline := time.Unix(r.LastSeenUnix, 0).Add(ttl)
			if deadline.Before(now) {
				delete(s.active, id)
				removed = append(removed, id)
			}
		}
	}
	m.expiredTotal += uint64(len(removed))
	return removed
}

func (s *verifC33Slot) routesOf(uid string) []Route {
	var out []Route
	for id, r := range s.active {
		if id.uid == uid {
			out = append(out, r)
		}
	}
	return out
}

func (s *verifC33Slot) indexStats() (routes, buckets int) {
	seen := map[int64]bool{}
	for _, r := range s.active {
		if r.LastSeenUnix != 0 {
			routes++
			seen[r.LastSeenUnix] = true
		}
	}
	return routes, len(seen)
}

// ---------------------------------------------------------------------------
// Harness
// ---------------------------------------------------------------------------

const verifC33Local = uint64(7)

var verifC33UIDs = []string{"a", "b"}

type verifC33Harness struct {
	rt    *rapid.T
	d     *Directory
	m     *verifC33Model
	slots []uint16
	log   []string
	attrs map[verifC33ID][3]int // flag, level, device per identity (fixed for a connection)
	// every pending token ever returned, with the hash slot it belongs to
	tokens []verifC33Tok
	// direct oracle for the tombstone clause: highest explicit unregister
	// sequence per identity within the current authority incarnation
	unreg map[uint16]map[verifC33ID]uint64
	// direct oracle for deterministic order: relative order of two identities
	// of one uid, as first observed
	pairOrder map[[2]verifC33ID]bool
	clock     int64

	sawLateAfterUnreg, sawStaleRejected, sawPending, sawCommit, sawCommitNotReady bool
	sawExpire, sawExpireBoundary, sawRecreate, sawRevisionOnly, sawFresh, sawLose bool
	sawMultiRoute, sawSeqFence, sawTouchConflict, sawCommitStale                  bool
}

type verifC33Tok struct {
	hs  uint16
	tok PendingRouteToken
}

func (h *verifC33Harness) note(f string, a ...any) { h.log = append(h.log, fmt.Sprintf(f, a...)) }

func (h *verifC33Harness) fail(f string, a ...any) {
	h.rt.Helper()
	h.rt.Fatalf("%s\nhistory:\n  %s", fmt.Sprintf(f, a...), strings.Join(h.log, "\n  "))
}

func verifC33FmtT(t RouteTarget) string {
	return fmt.Sprintf("{hs%d slot%d leader%d term%d cfg%d rev%d ae%d}", t.HashSlot, t.SlotID, t.LeaderNodeID, t.LeaderTerm, t.ConfigEpoch, t.RouteRevision, t.AuthorityEpoch)
}

func verifC33FmtR(r Route) string {
	return fmt.Sprintf("%s seq%d dev=%s/f%d/l%d conn%d seen%d", verifC33IDOf(r), r.OwnerSeq, r.DeviceID, r.DeviceFlag, r.DeviceLevel, r.ConnectedUnix, r.LastSeenUnix)
}

func verifC33FmtRs(rs []Route) string {
	parts := make([]string, len(rs))
	for i, r := range rs {
		parts[i] = verifC33FmtR(r)
	}
	return "[" + strings.Join(parts, "; ") + "]"
}

// target draws an operation target for some hash slot: the installed one
// (possibly observed at another route revision / local authority epoch, which
// is not part of the fence), or a stale one with one fence field changed.
func (h *verifC33Harness) hashSlot(t *rapid.T) uint16 {
	// most traffic goes to the first hash slot so that its state grows deep
	return h.slots[rapid.SampledFrom([]int{0, 0, 0, 0, 1, 2}).Draw(t, "hs")]
}

func (h *verifC33Harness) target(t *rapid.T) RouteTarget {
	hs := h.hashSlot(t)
	s := h.m.slots[hs]
	if s == nil {
		return RouteTarget{HashSlot: hs, SlotID: uint32(rapid.IntRange(1, 2).Draw(t, "slotID")), LeaderNodeID: verifC33Local,
			LeaderTerm: uint64(rapid.IntRange(1, 3).Draw(t, "term")), ConfigEpoch: uint64(rapid.IntRange(1, 2).Draw(t, "cfg")), RouteRevision: 1}
	}
	tg := s.target
	switch rapid.IntRange(0, 27).Draw(t, "targetKind") {
	case 0:
		tg.RouteRevision = uint64(rapid.IntRange(0, 9).Draw(t, "rev"))
	case 1:
		tg.AuthorityEpoch = uint64(rapid.IntRange(0, 9).Draw(t, "ae"))
	case 2:
		others := []uint16{}
		for _, o := range h.slots {
			if o != hs {
				others = append(others, o)
			}
		}
		tg.HashSlot = rapid.SampledFrom(others).Draw(t, "staleHS")
	case 3:
		tg.SlotID += uint32(rapid.IntRange(1, 2).Draw(t, "dSlot"))
	case 4:
		tg.LeaderNodeID = uint64(rapid.SampledFrom([]int{0, 6, 8}).Draw(t, "staleLeader"))
	case 5:
		if tg.LeaderTerm > 1 && rapid.Bool().Draw(t, "older") {
			tg.LeaderTerm--
		} else {
			tg.LeaderTerm++
		}
	case 6:
		if tg.ConfigEpoch > 1 && rapid.Bool().Draw(t, "older") {
			tg.ConfigEpoch--
		} else {
			tg.ConfigEpoch++
		}
	}
	return tg
}

func (h *verifC33Harness) identity(t *rapid.T) verifC33ID {
	return verifC33ID{
		uid:  rapid.SampledFrom(verifC33UIDs).Draw(t, "uid"),
		node: uint64(rapid.IntRange(1, 2).Draw(t, "node")),
		boot: uint64(rapid.SampledFrom([]int{1, 1, 1, 2}).Draw(t, "boot")),
		sess: uint64(rapid.IntRange(1, 3).Draw(t, "sess")),
	}
}

// route builds a route for an identity. Device attributes belong to the
// connection and are fixed per identity for the whole history.
func (h *verifC33Harness) route(t *rapid.T, hs uint16, id verifC33ID) Route {
	a, ok := h.attrs[id]
	if !ok {
		a = [3]int{rapid.SampledFrom([]int{0, 0, 0, 1}).Draw(t, "flag"), rapid.SampledFrom([]int{0, 0, 1, 1, 2}).Draw(t, "level"), rapid.IntRange(1, 2).Draw(t, "dev")}
		h.attrs[id] = a
	}
	r := Route{UID: id.uid, OwnerNodeID: id.node, OwnerBootID: id.boot, SessionID: id.sess,
		OwnerSeq: h.seqNear(t, hs, id),
		DeviceID: fmt.Sprintf("d%d", a[2]), DeviceFlag: uint8(a[0]), DeviceLevel: uint8(a[1]), Listener: "tcp"}
	switch rapid.IntRange(0, 5).Draw(t, "times") {
	case 0: // no activity time at all
	case 1:
		r.ConnectedUnix = h.clock - int64(rapid.IntRange(0, 12).Draw(t, "connAge"))
	default:
		r.ConnectedUnix = h.clock - int64(rapid.IntRange(0, 12).Draw(t, "connAge"))
		r.LastSeenUnix = h.clock - int64(rapid.IntRange(0, 12).Draw(t, "seenAge"))
	}
	return r
}

// seqNear draws an owner sequence around the newest one the authority saw for
// this connection (a retry, a delayed older message, or the next one).
func (h *verifC33Harness) seqNear(t *rapid.T, hs uint16, id verifC33ID) uint64 {
	base := 0
	if s := h.m.slots[hs]; s != nil {
		base = int(s.ownerSeq[id])
	}
	seq := base + rapid.SampledFrom([]int{-1, 0, 0, 1, 1, 2}).Draw(t, "dOwnerSeq")
	if seq < 1 {
		seq = 1
	}
	return uint64(seq)
}

// knownIdentity prefers identities that are active / tombstoned in the slot.
func (h *verifC33Harness) knownIdentity(t *rapid.T, hs uint16) verifC33ID {
	s := h.m.slots[hs]
	if s != nil && len(s.pending) > 0 && rapid.IntRange(0, 5).Draw(t, "pendingID") == 0 {
		var ids []verifC33ID
		for _, p := range s.pending {
			ids = append(ids, verifC33IDOf(p.route))
		}
		verifC33SortIDs(ids)
		return rapid.SampledFrom(ids).Draw(t, "pendingIdentity")
	}
	if s != nil && rapid.IntRange(0, 3).Draw(t, "known") > 0 {
		var ids []verifC33ID
		for id := range s.ownerSeq {
			ids = append(ids, id)
		}
		if len(ids) > 0 {
			verifC33SortIDs(ids)
			return rapid.SampledFrom(ids).Draw(t, "knownID")
		}
	}
	return h.identity(t)
}

func verifC33SortIDs(ids []verifC33ID) {
	sort.Slice(ids, func(i, j int) bool { return ids[i].String() < ids[j].String() })
}

func (h *verifC33Harness) wantErr(what string, got, want error) {
	h.rt.Helper()
	if want == nil {
		if got != nil {
			h.fail("%s returned %v, model says success", what, got)
		}
		return
	}
	if !errors.Is(got, want) {
		h.fail("%s returned %v, model says %v", what, got, want)
	}
}

func (h *verifC33Harness) noteLate(hs uint16, r Route) {
	if u, ok := h.unreg[hs][verifC33IDOf(r)]; ok && r.OwnerSeq <= u {
		h.sawLateAfterUnreg = true
	}
}

func (h *verifC33Harness) actions() map[string]func(*rapid.T) {
	acts := h.baseActions()
	// rapid picks action names uniformly; aliases make the core operations more frequent
	acts["register2"] = acts["register"]
	acts["register3"] = acts["register"]
	acts["touch2"] = acts["touch"]
	acts["commitOrAbort2"] = acts["commitOrAbort"]
	acts["unregister2"] = acts["unregister"]
	return acts
}

func (h *verifC33Harness) baseActions() map[string]func(*rapid.T) {
	return map[string]func(*rapid.T){
		"become": func(t *rapid.T) {
			hs := h.hashSlot(t)
			var tg RouteTarget
			if s := h.m.slots[hs]; s != nil && rapid.IntRange(0, 7).Draw(t, "sameIdentity") > 0 {
				tg = s.target
				rev := int(tg.RouteRevision) + rapid.IntRange(-1, 2).Draw(t, "dRev")
				if rev < 0 {
					rev = 0
				}
				tg.RouteRevision = uint64(rev)
				tg.AuthorityEpoch++
			} else {
				tg = RouteTarget{HashSlot: hs, SlotID: uint32(rapid.IntRange(1, 2).Draw(t, "slotID")), LeaderNodeID: verifC33Local,
					LeaderTerm: uint64(rapid.IntRange(1, 3).Draw(t, "term")), ConfigEpoch: uint64(rapid.IntRange(1, 2).Draw(t, "cfg")),
					RouteRevision: uint64(rapid.IntRange(1, 5).Draw(t, "rev"))}
			}
			h.d.BecomeAuthority(tg)
			fresh := h.m.become(tg)
			h.note("BecomeAuthority(%s) fresh=%v", verifC33FmtT(tg), fresh)
			if fresh {
				h.unreg[hs] = map[verifC33ID]uint64{}
				h.sawFresh = true
			} else {
				h.sawRevisionOnly = true
			}
		},
		"lose": func(t *rapid.T) {
			if rapid.IntRange(0, 7).Draw(t, "really") != 0 {
				t.Skip("lose kept rare")
			}
			hs := h.hashSlot(t)
			h.d.LoseAuthority(hs)
			h.m.lose(hs)
			delete(h.unreg, hs)
			h.note("LoseAuthority(%d)", hs)
			h.sawLose = true
		},
		"register": func(t *rapid.T) {
			tg := h.target(t)
			r := h.route(t, tg.HashSlot, h.knownIdentity(t, tg.HashSlot))
			res, err := h.d.RegisterRoute(tg, r)
			h.note("RegisterRoute(%s, %s) = token %q actions %+v err %v", verifC33FmtT(tg), verifC33FmtR(r), res.PendingToken, res.Actions, err)
			s := h.m.fence(tg)
			if s == nil {
				h.wantErr("RegisterRoute with stale target", err, ErrNotLeader)
				if res.PendingToken != "" || len(res.Actions) != 0 {
					h.fail("fenced RegisterRoute returned work %+v", res)
				}
				h.sawStaleRejected = true
				return
			}
			h.noteLate(tg.HashSlot, r)
			pending, conflicts, werr := s.register(r)
			h.wantErr("RegisterRoute", err, werr)
			if werr != nil {
				h.sawSeqFence = true
				return
			}
			if !pending {
				if res.PendingToken != "" || len(res.Actions) != 0 {
					h.fail("RegisterRoute without conflicts returned pending work %+v", res)
				}
				return
			}
			if res.PendingToken == "" {
				h.fail("RegisterRoute with conflicts %v returned no pending token", conflicts)
			}
			if _, dup := s.pending[res.PendingToken]; dup {
				h.fail("pending token %q reused while still pending", res.PendingToken)
			}
			if len(res.Actions) != len(conflicts) {
				h.fail("RegisterRoute actions %+v, model conflicts %v", res.Actions, conflicts)
			}
			seen := map[verifC33ID]bool{}
			for _, a := range res.Actions {
				id := verifC33ID{uid: a.UID, node: a.OwnerNodeID, boot: a.OwnerBootID, sess: a.SessionID}
				if !conflicts[id] || seen[id] {
					h.fail("RegisterRoute action %+v does not name a (distinct) conflicting route %v", a, conflicts)
				}
				seen[id] = true
				wantKind := "close"
				if r.DeviceLevel == 1 && s.active[id].DeviceID != r.DeviceID {
					wantKind = "kick_then_close"
				}
				if a.Kind != wantKind {
					h.fail("RegisterRoute action %+v kind, want %q", a, wantKind)
				}
			}
			s.pending[res.PendingToken] = verifC33Pending{route: verifC33Seen(r), conflicts: conflicts}
			h.tokens = append(h.tokens, verifC33Tok{hs: tg.HashSlot, tok: res.PendingToken})
			h.sawPending = true
		},
		"commitOrAbort": func(t *rapid.T) {
			if len(h.tokens) == 0 {
				t.Skip("no pending token yet")
			}
			// newest tokens are the likeliest to be still pending
			lo := len(h.tokens) - 4
			if lo < 0 || rapid.IntRange(0, 3).Draw(t, "old") == 0 {
				lo = 0
			}
			tk := h.tokens[rapid.IntRange(lo, len(h.tokens)-1).Draw(t, "tok")]
			tg := h.target(t)
			if rapid.IntRange(0, 4).Draw(t, "ownSlot") > 0 {
				if s := h.m.slots[tk.hs]; s != nil {
					tg = s.target
				}
			}
			abort := rapid.IntRange(0, 3).Draw(t, "abort") == 0
			s := h.m.fence(tg)
			if abort {
				err := h.d.AbortRoute(tg, tk.tok)
				h.note("AbortRoute(%s, %q) = %v", verifC33FmtT(tg), tk.tok, err)
				if s == nil {
					h.wantErr("AbortRoute with stale target", err, ErrNotLeader)
					h.sawStaleRejected = true
					return
				}
				if _, ok := s.pending[tk.tok]; !ok {
					h.wantErr("AbortRoute(unknown token)", err, ErrRouteNotReady)
					return
				}
				delete(s.pending, tk.tok)
				h.wantErr("AbortRoute", err, nil)
				return
			}
			err := h.d.CommitRoute(tg, tk.tok)
			h.note("CommitRoute(%s, %q) = %v", verifC33FmtT(tg), tk.tok, err)
			if s == nil {
				h.wantErr("CommitRoute with stale target", err, ErrNotLeader)
				h.sawStaleRejected = true
				return
			}
			if p, ok := s.pending[tk.tok]; ok {
				h.noteLate(tg.HashSlot, p.route)
			}
			werr := s.commit(tk.tok)
			h.wantErr("CommitRoute", err, werr)
			switch werr {
			case nil:
				h.sawCommit = true
			case ErrRouteNotReady:
				h.sawCommitNotReady = true
			case ErrStaleRoute:
				h.sawCommitStale = true
			}
		},
		"unregister": func(t *rapid.T) {
			tg := h.target(t)
			id := h.knownIdentity(t, tg.HashSlot)
			seq := h.seqNear(t, tg.HashSlot, id)
			if s := h.m.slots[tg.HashSlot]; s != nil {
				if ex, ok := s.active[id]; ok && rapid.IntRange(0, 2).Draw(t, "around") > 0 {
					seq = uint64(int(ex.OwnerSeq) + rapid.IntRange(-1, 1).Draw(t, "dSeq"))
					if seq == 0 {
						seq = 1
					}
				}
			}
			err := h.d.UnregisterRoute(tg, RouteIdentity{UID: id.uid, OwnerNodeID: id.node, OwnerBootID: id.boot, SessionID: id.sess}, seq)
			h.note("UnregisterRoute(%s, %s, seq%d) = %v", verifC33FmtT(tg), id, seq, err)
			s := h.m.fence(tg)
			if s == nil {
				h.wantErr("UnregisterRoute with stale target", err, ErrNotLeader)
				h.sawStaleRejected = true
				return
			}
			h.wantErr("UnregisterRoute", err, nil)
			s.unregister(id, seq)
			if h.unreg[tg.HashSlot] == nil {
				h.unreg[tg.HashSlot] = map[verifC33ID]uint64{}
			}
			if seq > h.unreg[tg.HashSlot][id] {
				h.unreg[tg.HashSlot][id] = seq
			}
		},
		"touch": func(t *rapid.T) {
			tg := h.target(t)
			n := rapid.IntRange(1, 4).Draw(t, "n")
			routes := make([]Route, 0, n)
			ms := h.m.slots[tg.HashSlot]
			for i := 0; i < n; i++ {
				var r Route
				var actives []verifC33ID
				if ms != nil {
					for id := range ms.active {
						actives = append(actives, id)
					}
					verifC33SortIDs(actives)
				}
				if len(actives) > 0 && rapid.IntRange(0, 2).Draw(t, "refresh") > 0 {
					// owner heartbeat for a live route: same connection, same or newer sequence, newer activity
					r = ms.active[rapid.SampledFrom(actives).Draw(t, "active")]
					r.OwnerSeq = uint64(int(r.OwnerSeq) + rapid.SampledFrom([]int{-1, 0, 0, 0, 1}).Draw(t, "dSeq"))
					if r.OwnerSeq == 0 {
						r.OwnerSeq = 1
					}
					r.LastSeenUnix = h.clock - int64(rapid.IntRange(0, 12).Draw(t, "seenAge"))
				} else {
					r = h.route(t, tg.HashSlot, h.knownIdentity(t, tg.HashSlot))
					if rapid.IntRange(0, 19).Draw(t, "emptyUID") == 0 {
						r.UID = ""
					}
				}
				routes = append(routes, r)
			}
			err := h.d.TouchRoutes(tg, routes)
			h.note("TouchRoutes(%s, %s) = %v", verifC33FmtT(tg), verifC33FmtRs(routes), err)
			s := h.m.fence(tg)
			if s == nil {
				h.wantErr("TouchRoutes with stale target", err, ErrNotLeader)
				h.sawStaleRejected = true
				return
			}
			h.wantErr("TouchRoutes", err, nil)
			for _, r := range routes {
				if r.UID != "" {
					h.noteLate(tg.HashSlot, r)
				}
				_, had := s.active[verifC33IDOf(r)]
				fenced := r.UID != "" && s.fencedBySeq(r)
				conflict := r.UID != "" && !fenced && !had && len(s.conflicts(verifC33Seen(r))) > 0
				s.touch(r)
				_, has := s.active[verifC33IDOf(r)]
				h.sawRecreate = h.sawRecreate || (!had && has)
				h.sawSeqFence = h.sawSeqFence || fenced
				h.sawTouchConflict = h.sawTouchConflict || conflict
			}
			h.m.touchTotal += uint64(len(routes))
		},
		"tick": func(t *rapid.T) {
			h.clock += int64(rapid.IntRange(0, 5).Draw(t, "dt"))
			h.note("clock=%d", h.clock)
		},
		"expire": func(t *rapid.T) {
			ttl := rapid.SampledFrom([]time.Duration{0, -time.Second, time.Nanosecond, 500 * time.Millisecond, time.Second, 2 * time.Second,
				3 * time.Second, 5 * time.Second, 8 * time.Second, 12 * time.Second}).Draw(t, "ttl")
			now := time.Unix(h.clock-int64(rapid.IntRange(0, 3).Draw(t, "back")), int64(rapid.SampledFrom([]int{0, 0, 1, 500_000_000}).Draw(t, "nsec")))
			if rapid.IntRange(0, 24).Draw(t, "zeroNow") == 0 {
				now = time.Time{}
			}
			// boundary bookkeeping before the model mutates
			if ttl > 0 && !now.IsZero() {
				for _, s := range h.m.slots {
					for _, r := range s.active {
						if r.LastSeenUnix != 0 && time.Unix(r.LastSeenUnix, 0).Add(ttl).Equal(now) {
							h.sawExpireBoundary = true
						}
					}
				}
			}
			res := h.d.ExpireRoutesDetailed(now, ttl)
			removed := h.m.expire(now, ttl)
			h.note("ExpireRoutesDetailed(now=%d.%09d, ttl=%v) = %+v; model removes %v", now.Unix(), now.Nanosecond(), ttl, res, removed)
			if res.Expired != len(removed) {
				h.fail("ExpireRoutesDetailed(now=%d.%09d, ttl=%v) expired %d routes, exactly %d are idle longer than the TTL: %v", now.Unix(), now.Nanosecond(), ttl, res.Expired, len(removed), removed)
			}
			wantRoutes, wantBuckets := 0, 0
			for _, s := range h.m.slots {
				r, b := s.indexStats()
				wantRoutes += r
				wantBuckets += b
			}
			if res.IndexRoutes != wantRoutes || res.IndexBuckets != wantBuckets {
				h.fail("expiry index after pass: %d routes in %d buckets, model has %d timestamped routes in %d activity seconds", res.IndexRoutes, res.IndexBuckets, wantRoutes, wantBuckets)
			}
			h.sawExpire = h.sawExpire || len(removed) > 0
		},
		"lookupStale": func(t *rapid.T) {
			tg := h.target(t)
			uid := rapid.SampledFrom(verifC33UIDs).Draw(t, "uid")
			got, err := h.d.EndpointsByUID(tg, uid)
			s := h.m.fence(tg)
			if s == nil {
				h.note("EndpointsByUID(%s,%q) = %v", verifC33FmtT(tg), uid, err)
				h.wantErr("EndpointsByUID with stale target", err, ErrNotLeader)
				if len(got) != 0 {
					h.fail("fenced lookup returned routes %s", verifC33FmtRs(got))
				}
				if _, err2 := h.d.EndpointsByUIDs(tg, []string{uid, "a"}); !errors.Is(err2, ErrNotLeader) {
					h.fail("EndpointsByUIDs with stale target %s returned %v", verifC33FmtT(tg), err2)
				}
				h.sawStaleRejected = true
				return
			}
			h.wantErr("EndpointsByUID", err, nil)
			h.compareRoutes(fmt.Sprintf("EndpointsByUID(%s,%q)", verifC33FmtT(tg), uid), got, s.routesOf(uid))
		},
		"": func(t *rapid.T) { h.invariant() },
	}
}

// compareRoutes: same routes as the model (as a set, full values) and an order
// that is consistent with every order observed before for these identities.
func (h *verifC33Harness) compareRoutes(what string, got, want []Route) {
	h.rt.Helper()
	if len(got) != len(want) {
		h.fail("%s returned %s, model has %s", what, verifC33FmtRs(got), verifC33FmtRs(want))
	}
	wm := map[verifC33ID]Route{}
	for _, r := range want {
		wm[verifC33IDOf(r)] = r
	}
	seen := map[verifC33ID]bool{}
	for _, r := range got {
		id := verifC33IDOf(r)
		w, ok := wm[id]
		if !ok || seen[id] {
			h.fail("%s returned %s which is not (or twice) in the model %s", what, verifC33FmtR(r), verifC33FmtRs(want))
		}
		seen[id] = true
		if r != w {
			h.fail("%s returned %s, model has %s", what, verifC33FmtR(r), verifC33FmtR(w))
		}
	}
	for i := 0; i < len(got); i++ {
		for j := i + 1; j < len(got); j++ {
			a, b := verifC33IDOf(got[i]), verifC33IDOf(got[j])
			if prev, ok := h.pairOrder[[2]verifC33ID{b, a}]; ok && prev {
				h.fail("%s returned %v before %v, an earlier lookup returned them the other way round: route order is not deterministic", what, a, b)
			}
			h.pairOrder[[2]verifC33ID{a, b}] = true
		}
	}
	if len(got) > 1 {
		h.sawMultiRoute = true
	}
}

func (h *verifC33Harness) invariant() {
	h.rt.Helper()
	var groups []EndpointLookupGroup
	var groupWant [][]Route // nil entry = fenced
	order := []string{"b", "zz", "a", "b"}
	wantActive := 0
	wantBySlot := map[uint16]int{}
	wantIdxRoutes, wantIdxBuckets := 0, 0
	for _, hs := range h.slots {
		s := h.m.slots[hs]
		if s == nil {
			tg := RouteTarget{HashSlot: hs, SlotID: 1, LeaderNodeID: verifC33Local, LeaderTerm: 1, ConfigEpoch: 1}
			if _, err := h.d.EndpointsByUID(tg, "a"); !errors.Is(err, ErrNotLeader) {
				h.fail("hash slot %d has no authority but EndpointsByUID returned err=%v", hs, err)
			}
			groups = append(groups, EndpointLookupGroup{Target: tg, UIDs: order})
			groupWant = append(groupWant, nil)
			continue
		}
		var concat []Route
		perUID := map[string][]Route{}
		for _, uid := range verifC33UIDs {
			got, err := h.d.EndpointsByUID(s.target, uid)
			if err != nil {
				h.fail("EndpointsByUID(%s,%q) with the installed target failed: %v", verifC33FmtT(s.target), uid, err)
			}
			h.compareRoutes(fmt.Sprintf("EndpointsByUID(%s,%q)", verifC33FmtT(s.target), uid), got, s.routesOf(uid))
			again, _ := h.d.EndpointsByUID(s.target, uid)
			if fmt.Sprint(again) != fmt.Sprint(got) {
				h.fail("two EndpointsByUID(%q) calls disagree: %s vs %s", uid, verifC33FmtRs(got), verifC33FmtRs(again))
			}
			perUID[uid] = got
			// tombstone clause, judged directly on what lookups return
			for _, r := range got {
				if u, ok := h.unreg[hs][verifC33IDOf(r)]; ok && r.OwnerSeq <= u {
					h.fail("route %s is visible although the connection was unregistered at sequence %d in this authority incarnation", verifC33FmtR(r), u)
				}
			}
		}
		for _, uid := range order {
			concat = append(concat, perUID[uid]...)
		}
		multi, err := h.d.EndpointsByUIDs(s.target, order)
		if err != nil || fmt.Sprint(multi) != fmt.Sprint(concat) {
			h.fail("EndpointsByUIDs(%v) = %s, %v; want per-UID results in input order %s", order, verifC33FmtRs(multi), err, verifC33FmtRs(concat))
		}
		groups = append(groups, EndpointLookupGroup{Target: s.target, UIDs: order})
		groupWant = append(groupWant, append([]Route{}, concat...))
		// a stale sibling group on the same hash slot must not disturb the others
		stale := s.target
		stale.LeaderTerm += 5
		groups = append(groups, EndpointLookupGroup{Target: stale, UIDs: order})
		groupWant = append(groupWant, nil)

		wantActive += len(s.active)
		if len(s.active) > 0 {
			wantBySlot[hs] = len(s.active)
		}
		r, b := s.indexStats()
		wantIdxRoutes += r
		wantIdxBuckets += b
	}
	results := h.d.EndpointsByTargets(groups)
	if len(results) != len(groups) {
		h.fail("EndpointsByTargets returned %d results for %d groups", len(results), len(groups))
	}
	for i, res := range results {
		if groupWant[i] == nil {
			if !errors.Is(res.Err, ErrNotLeader) || len(res.Routes) != 0 {
				h.fail("EndpointsByTargets group %d (%s) should be fenced, got routes=%s err=%v", i, verifC33FmtT(groups[i].Target), verifC33FmtRs(res.Routes), res.Err)
			}
			continue
		}
		if res.Err != nil || fmt.Sprint(res.Routes) != fmt.Sprint(groupWant[i]) {
			h.fail("EndpointsByTargets group %d (%s) = %s, %v; EndpointsByUID says %s", i, verifC33FmtT(groups[i].Target), verifC33FmtRs(res.Routes), res.Err, verifC33FmtRs(groupWant[i]))
		}
	}
	snap := h.d.Snapshot()
	if snap.Active != wantActive || fmt.Sprint(snap.ByHashSlot) != fmt.Sprint(wantBySlot) {
		h.fail("Snapshot active=%d by slot %v, model active=%d by slot %v", snap.Active, snap.ByHashSlot, wantActive, wantBySlot)
	}
	if snap.ExpiryIndexRoutes != wantIdxRoutes || snap.ExpiryIndexBuckets != wantIdxBuckets {
		h.fail("Snapshot expiry index %d routes / %d buckets, model %d / %d", snap.ExpiryIndexRoutes, snap.ExpiryIndexBuckets, wantIdxRoutes, wantIdxBuckets)
	}
	if snap.TouchRoutesTotal != h.m.touchTotal || snap.ExpiredRoutesTotal != h.m.expiredTotal {
		h.fail("Snapshot counters touch=%d expired=%d, model touch=%d expired=%d", snap.TouchRoutesTotal, snap.ExpiredRoutesTotal, h.m.touchTotal, h.m.expiredTotal)
	}
	// fences that lookups cannot see: pending candidates, owner sequences, tombstones
	for _, hs := range h.slots {
		s := h.m.slots[hs]
		sh := h.d.shard(hs)
		sh.mu.RLock()
		real := sh.slots[hs]
		var problem string
		switch {
		case (real == nil) != (s == nil):
			problem = fmt.Sprintf("authority installed=%v, model=%v", real != nil, s != nil)
		case real != nil:
			if len(real.pending) != len(s.pending) {
				problem = fmt.Sprintf("%d pending candidates, model has %d", len(real.pending), len(s.pending))
			}
			for tok := range s.pending {
				if _, ok := real.pending[tok]; !ok {
					problem = fmt.Sprintf("pending token %q missing", tok)
				}
			}
			ids := map[verifC33ID]bool{}
			for k := range real.ownerSeq {
				ids[verifC33ID{k.uid, k.ownerNodeID, k.ownerBootID, k.sessionID}] = true
			}
			for k := range real.tombstoneSeq {
				ids[verifC33ID{k.uid, k.ownerNodeID, k.ownerBootID, k.sessionID}] = true
			}
			for id := range s.ownerSeq {
				ids[id] = true
			}
			for id := range s.tomb {
				ids[id] = true
			}
			for id := range ids {
				k := identityKey{uid: id.uid, ownerNodeID: id.node, ownerBootID: id.boot, sessionID: id.sess}
				if real.ownerSeq[k] != s.ownerSeq[id] || real.tombstoneSeq[k] != s.tomb[id] {
					problem = fmt.Sprintf("%v: owner sequence %d tombstone %d, model %d / %d", id, real.ownerSeq[k], real.tombstoneSeq[k], s.ownerSeq[id], s.tomb[id])
				}
			}
		}
		sh.mu.RUnlock()
		if problem != "" {
			h.fail("hash slot %d: %s", hs, problem)
		}
	}
}

func TestVerifC33Directory(t *testing.T) {
	kit.Check(t, "C33", func(rt *rapid.T, k *kit.Case) {
		shardCount := rapid.SampledFrom([]int{1, 2, 4, 0}).Draw(rt, "shards")
		eff := shardCount
		if eff <= 0 {
			eff = defaultShardCount
		}
		local := uint64(rapid.SampledFrom([]int{0, int(verifC33Local)}).Draw(rt, "localNode"))
		h := &verifC33Harness{
			rt:        rt,
			d:         NewDirectory(DirectoryOptions{LocalNodeID: local, ShardCount: shardCount}),
			m:         &verifC33Model{local: local, slots: map[uint16]*verifC33Slot{}},
			slots:     []uint16{1, 2, uint16(1 + 2*eff)}, // 1 and 1+2*eff share a shard
			attrs:     map[verifC33ID][3]int{},
			unreg:     map[uint16]map[verifC33ID]uint64{},
			pairOrder: map[[2]verifC33ID]bool{},
			clock:     int64(rapid.IntRange(1000, 2000).Draw(rt, "t0")),
		}
		// most histories start with authority for the first hash slot
		if rapid.IntRange(0, 4).Draw(rt, "preinstall") > 0 {
			tg := RouteTarget{HashSlot: 1, SlotID: 1, LeaderNodeID: verifC33Local, LeaderTerm: 1, ConfigEpoch: 1, RouteRevision: 1}
			h.d.BecomeAuthority(tg)
			h.m.become(tg)
			h.unreg[1] = map[verifC33ID]uint64{}
			h.note("BecomeAuthority(%s)", verifC33FmtT(tg))
		}
		rt.Repeat(h.actions())

		k.Key(shardCount, local, strings.Join(h.log, "|"))
		k.SetNonTrivial(h.sawLateAfterUnreg)
		k.LabelIf(h.sawLateAfterUnreg, "unregister followed by late register/touch/commit at <= its sequence")
		k.LabelIf(h.sawStaleRejected, "operation with stale target rejected")
		k.LabelIf(h.sawPending, "register with conflicts -> pending")
		k.LabelIf(h.sawCommit, "pending committed")
		k.LabelIf(h.sawCommitNotReady, "commit not ready (unknown token / new conflict)")
		k.LabelIf(h.sawCommitStale, "commit of superseded/tombstoned candidate")
		k.LabelIf(h.sawSeqFence, "owner-sequence fence hit")
		k.LabelIf(h.sawTouchConflict, "touch of missing conflicting route ignored")
		k.LabelIf(h.sawRecreate, "touch recreated a missing route")
		k.LabelIf(h.sawExpire, "expiry removed >=1")
		k.LabelIf(h.sawExpireBoundary, "expiry deadline exactly now")
		k.LabelIf(h.sawRevisionOnly, "revision-only authority update")
		k.LabelIf(h.sawFresh, "fresh authority identity")
		k.LabelIf(h.sawLose, "authority lost")
		k.LabelIf(h.sawMultiRoute, "uid with >=2 routes looked up")
		k.Sample(func() any {
			if len(h.log) > 25 {
				return h.log[len(h.log)-25:]
			}
			return h.log
		})
	})
}
