package delivery

import (
	"fmt"
	"runtime"
	"sort"
	"strings"
	"sync"
	"testing"
	"time"

	"pgregory.net/rapid"
	"verif.local/kit"
)

// Concurrent variant (built with -race). G worker goroutines run generated
// scripts against one tracker:
//
//   - on sessions each worker owns exclusively, every result is predicted by
//     the worker's own sequential reference model (verifC32Model);
//   - on one session shared by all workers (same message ids, so binds,
//     finishes, cancels and acks of different workers really collide) only
//     schedule-independent laws are judged: an ack/cancel/finish succeeds at
//     most once per identity incarnation/token, and creations minus removals
//     reported by the API equal the number of identities left;
//   - an expirer goroutine runs Expire with a fixed clock: exactly the
//     pre-seeded stale identities may be removed, each once; identities with a
//     fresher in-flight attempt and everything the workers bind stay.
//
// All verdicts are taken after every goroutine was joined.

type verifC32COp struct {
	kind   int // 0 bind 1 bindCompat 2 finish 3 cancel 4 ack 5 close 6 batch(bind+finish/cancel) 7 yield
	shared bool
	sid    int // index into the worker's private sessions
	mid    uint64
	seq    uint64
	pick   int    // which of the worker's issued tokens (mod count)
	mask   uint64 // per-item finish(1)/cancel(0) decisions for batches
	n      int
}

const (
	verifC32SharedUID = "shared"
	verifC32SharedSID = uint64(7)
	verifC32OldUID    = "old"
	verifC32OldSID    = uint64(9)
	verifC32Clock     = int64(1000)
)

type verifC32Worker struct {
	id        int
	uid       string
	sessions  []uint64
	ops       []verifC32COp
	model     *verifC32Model
	issued    []verifC32Issued // private-session tokens
	shIssued  []verifC32Issued // shared-session tokens
	errs      []string
	added     int // identities this worker's calls created (API-reported)
	removed   int // identities this worker's calls removed (API-reported)
	contended bool
	log       []string
}

func (w *verifC32Worker) failf(f string, a ...any) {
	w.errs = append(w.errs, fmt.Sprintf("worker %d: ", w.id)+fmt.Sprintf(f, a...))
}

func (w *verifC32Worker) run(tr *AckTracker) {
	for _, op := range w.ops {
		if len(w.errs) > 0 {
			return
		}
		if op.shared {
			w.runShared(tr, op)
		} else {
			w.runPrivate(tr, op)
		}
	}
}

func (w *verifC32Worker) row(op verifC32COp) PendingRecvAck {
	if op.shared {
		return PendingRecvAck{UID: verifC32SharedUID, SessionID: verifC32SharedSID, MessageID: op.mid, MessageSeq: op.seq, ChannelID: w.uid}
	}
	return PendingRecvAck{UID: w.uid, SessionID: w.sessions[op.sid%len(w.sessions)], MessageID: op.mid, MessageSeq: op.seq, ChannelID: w.uid}
}

// runPrivate: exclusively owned identities, exact model.
func (w *verifC32Worker) runPrivate(tr *AckTracker, op verifC32COp) {
	m := w.model
	row := w.row(op)
	switch op.kind {
	case 0:
		res := tr.BindResult(row)
		wantBound, wantAdded := m.bindAllowed(row)
		if res.Bound != wantBound || res.Added != wantAdded {
			w.failf("BindResult(%+v)=%+v, model bound=%v added=%v", row, res, wantBound, wantAdded)
			return
		}
		if wantBound {
			m.addAttempt(row, verifC32Clock, res.Token)
			w.issued = append(w.issued, verifC32Issued{row: row, tok: res.Token})
			if wantAdded {
				w.added++
			}
		}
	case 1:
		ok := tr.Bind(row)
		wantBound, wantAdded := m.bindAllowed(row)
		if ok != wantBound {
			w.failf("Bind(%+v)=%v, model %v", row, ok, wantBound)
			return
		}
		if wantBound {
			tok := AckBindToken{id: ^uint64(0)}
			m.addAttempt(row, verifC32Clock, tok)
			m.finish(row, tok)
			if wantAdded {
				w.added++
			}
		}
	case 2, 3:
		if len(w.issued) == 0 {
			return
		}
		is := w.issued[op.pick%len(w.issued)]
		if op.kind == 2 {
			got, want := tr.FinishBind(is.row, is.tok), m.finish(is.row, is.tok)
			if got != want {
				w.failf("FinishBind(%v,#%d)=%v, model %v", verifC32KeyOf(is.row), is.tok.id, got, want)
			}
			return
		}
		res := tr.CancelBind(is.row, is.tok)
		canceled, removed := m.cancel(is.row, is.tok)
		if res.Canceled != canceled || res.Removed != removed {
			w.failf("CancelBind(%v,#%d)=%+v, model canceled=%v removed=%v", verifC32KeyOf(is.row), is.tok.id, res, canceled, removed)
			return
		}
		if removed {
			w.removed++
		}
	case 4:
		got, ok := tr.Ack(Recvack{UID: row.UID, SessionID: row.SessionID, MessageID: row.MessageID})
		e := m.keys[verifC32KeyOf(row)]
		if ok != (e != nil) {
			w.failf("Ack(%v) ok=%v, model has entry: %v", verifC32KeyOf(row), ok, e != nil)
			return
		}
		if ok {
			if !e.metaOK(got) {
				w.failf("Ack(%v) returned %+v, model has %s", verifC32KeyOf(row), got, e.describe())
				return
			}
			delete(m.keys, verifC32KeyOf(row))
			w.removed++
		}
	case 5:
		got := tr.SessionClosed(row.UID, row.SessionID)
		want := map[verifC32Key]*verifC32Entry{}
		for k, e := range m.keys {
			if k.uid == row.UID && k.sid == row.SessionID {
				want[k] = e
			}
		}
		if err := verifC32CheckRemoved(fmt.Sprintf("SessionClosed(%q,%d)", row.UID, row.SessionID), got, want); err != nil {
			w.failf("%v", err)
			return
		}
		for k := range want {
			delete(m.keys, k)
		}
		w.removed += len(want)
	case 6:
		rows := make([]PendingRecvAck, op.n)
		for i := range rows {
			r := row
			r.MessageID = 1 + (op.mid+uint64(i)*uint64(1+op.pick%3))%6
			r.MessageSeq = uint64(i)
			rows[i] = r
		}
		res := tr.BindBatch(rows)
		bound, added := 0, 0
		for i, r := range rows {
			wb, wa := m.bindAllowed(r)
			if res.Tokens[i].Valid() != wb {
				w.failf("BindBatch[%d](%+v) token valid=%v, model bound=%v", i, r, res.Tokens[i].Valid(), wb)
				return
			}
			if wb {
				bound++
				m.addAttempt(r, verifC32Clock, res.Tokens[i])
				w.issued = append(w.issued, verifC32Issued{row: r, tok: res.Tokens[i]})
			}
			if wa {
				added++
			}
		}
		if res.Bound != bound || res.Added != added {
			w.failf("BindBatch Bound=%d Added=%d, model %d %d", res.Bound, res.Added, bound, added)
			return
		}
		w.added += added
		var fin []int
		for i := range rows {
			if op.mask>>uint(i)&1 == 1 {
				fin = append(fin, i)
			}
		}
		runtime.Gosched()
		got := tr.FinishBindBatch(rows, res.Tokens, fin)
		want := 0
		for _, i := range fin {
			if m.finish(rows[i], res.Tokens[i]) {
				want++
			}
		}
		if got != want {
			w.failf("FinishBindBatch=%d, model %d", got, want)
			return
		}
		for i := range rows {
			if op.mask>>uint(i)&1 == 0 && res.Tokens[i].Valid() {
				cr := tr.CancelBind(rows[i], res.Tokens[i])
				c, r := m.cancel(rows[i], res.Tokens[i])
				if cr.Canceled != c || cr.Removed != r {
					w.failf("CancelBind(batch item %d)=%+v, model %v %v", i, cr, c, r)
					return
				}
				if r {
					w.removed++
				}
			}
		}
	case 7:
		runtime.Gosched()
	}
}

// runShared: identities every worker touches. Only interleaving-independent
// facts are judged here; the books (added/removed) are balanced at the end.
func (w *verifC32Worker) runShared(tr *AckTracker, op verifC32COp) {
	row := w.row(op)
	switch op.kind {
	case 0, 1, 6:
		res := tr.BindResult(row)
		if !res.Bound || !res.Token.Valid() {
			// no per-session limit can be hit: the shared session has fewer ids than the limit
			w.failf("shared BindResult(%+v) rejected: %+v", row, res)
			return
		}
		if res.Added {
			w.added++
		} else {
			w.contended = true
		}
		w.shIssued = append(w.shIssued, verifC32Issued{row: row, tok: res.Token})
		if op.kind == 1 {
			runtime.Gosched()
			tr.FinishBind(row, res.Token)
			w.shIssued[len(w.shIssued)-1].tok = AckBindToken{} // consumed
		}
	case 2, 3:
		// resolve the oldest unresolved own shared token
		for i := range w.shIssued {
			is := &w.shIssued[i]
			if !is.tok.Valid() {
				continue
			}
			if op.kind == 2 {
				first := tr.FinishBind(is.row, is.tok)
				if again := tr.FinishBind(is.row, is.tok); again {
					w.failf("shared token #%d finished twice (first=%v)", is.tok.id, first)
				}
				if !first {
					w.contended = true // identity cleanup by another worker won
				}
			} else {
				res := tr.CancelBind(is.row, is.tok)
				if res.Removed && !res.Canceled {
					w.failf("shared CancelBind(#%d)=%+v: removed without cancel", is.tok.id, res)
				}
				if res.Removed {
					w.removed++
				}
				if !res.Canceled {
					w.contended = true
				}
				if again := tr.CancelBind(is.row, is.tok); again.Canceled {
					w.failf("shared token #%d cancelled twice", is.tok.id)
				}
			}
			is.tok = AckBindToken{}
			return
		}
	case 4:
		got, ok := tr.Ack(Recvack{UID: row.UID, SessionID: row.SessionID, MessageID: row.MessageID})
		if ok {
			if verifC32KeyOf(got) != verifC32KeyOf(row) {
				w.failf("shared Ack(%v) returned another identity %+v", verifC32KeyOf(row), got)
			}
			w.removed++
		}
	case 5:
		got := tr.SessionClosed(row.UID, row.SessionID)
		seen := map[uint64]bool{}
		for _, p := range got {
			if p.UID != row.UID || p.SessionID != row.SessionID || seen[p.MessageID] {
				w.failf("shared SessionClosed returned foreign/duplicate entry %+v in %+v", p, got)
			}
			seen[p.MessageID] = true
		}
		w.removed += len(got)
	case 7:
		runtime.Gosched()
	}
}

func TestVerifC32Concurrent(t *testing.T) {
	kit.Check(t, "C32", func(rt *rapid.T, k *kit.Case) {
		shardCount := rapid.SampledFrom([]int{1, 2, 4, 32}).Draw(rt, "shards")
		g := rapid.IntRange(2, 6).Draw(rt, "workers")
		sharedIDs := rapid.IntRange(1, 3).Draw(rt, "sharedIDs")
		// limit 0 = unlimited; otherwise above the shared session's id range so
		// that shared binds are never rejected, while private sessions (6 ids)
		// can hit it.
		max := rapid.SampledFrom([]int{0, 0, 4, 5}).Draw(rt, "maxPerSession")
		nOps := rapid.IntRange(5, 40).Draw(rt, "opsPerWorker")

		tr := NewAckTracker(AckTrackerOptions{ShardCount: shardCount, MaxPendingPerSession: max, Now: func() int64 { return verifC32Clock }})

		workers := make([]*verifC32Worker, g)
		var desc []string
		for i := range workers {
			w := &verifC32Worker{id: i, uid: fmt.Sprintf("w%d", i), model: verifC32NewModel(max)}
			// private sessions; session ids of different workers may share shards
			w.sessions = []uint64{uint64(100 + i), uint64(100 + i + shardCount), uint64(200 + 7*i)}
			w.ops = make([]verifC32COp, nOps)
			for j := range w.ops {
				op := verifC32COp{
					kind:   rapid.SampledFrom([]int{0, 0, 1, 2, 2, 3, 3, 4, 4, 5, 6, 7}).Draw(rt, "kind"),
					shared: rapid.IntRange(0, 2).Draw(rt, "shared") == 0,
					sid:    rapid.IntRange(0, 2).Draw(rt, "sid"),
					seq:    uint64(rapid.IntRange(0, 9).Draw(rt, "seq")),
					pick:   rapid.IntRange(0, 63).Draw(rt, "pick"),
					mask:   rapid.Uint64Range(0, 63).Draw(rt, "mask"),
					n:      rapid.IntRange(1, 6).Draw(rt, "n"),
				}
				if op.shared {
					op.mid = uint64(rapid.IntRange(1, sharedIDs).Draw(rt, "sharedMid"))
					if op.kind == 5 && rapid.IntRange(0, 2).Draw(rt, "rareClose") != 0 {
						op.kind = 4
					}
				} else {
					op.mid = uint64(rapid.IntRange(1, 6).Draw(rt, "mid"))
				}
				w.ops[j] = op
			}
			workers[i] = w
			desc = append(desc, fmt.Sprintf("%+v", w.ops))
		}

		// Pre-seeded identities for the expirer (clock fixed at 1000, ttl 50s => cutoff 950).
		nOld := rapid.IntRange(0, 6).Draw(rt, "stale")
		nProtected := rapid.IntRange(0, 3).Draw(rt, "protected")
		staleIDs := map[uint64]bool{}
		for i := 0; i < nOld; i++ {
			mid := uint64(1 + i)
			at := int64(rapid.SampledFrom([]int{100, 949, 950}).Draw(rt, "staleAt"))
			if !tr.Bind(PendingRecvAck{UID: verifC32OldUID, SessionID: verifC32OldSID + uint64(i%2)*uint64(shardCount), MessageID: mid, DeliveredAt: at}) {
				rt.Fatalf("seeding stale identity failed")
			}
			staleIDs[mid] = true
		}
		type protectedRow struct {
			row PendingRecvAck
			tok AckBindToken
		}
		var protected []protectedRow
		for i := 0; i < nProtected; i++ {
			base := PendingRecvAck{UID: verifC32OldUID, SessionID: verifC32OldSID + 2*uint64(shardCount), MessageID: uint64(100 + i), DeliveredAt: 100}
			if !tr.Bind(base) {
				rt.Fatalf("seeding protected identity failed")
			}
			fresh := base
			fresh.DeliveredAt = 951
			res := tr.BindResult(fresh)
			if !res.Bound || res.Added {
				rt.Fatalf("seeding protected refresh: %+v", res)
			}
			protected = append(protected, protectedRow{row: fresh, tok: res.Token})
		}
		seeded := nOld + nProtected
		if got := tr.PendingCount(); got != seeded {
			rt.Fatalf("PendingCount()=%d after seeding %d identities", got, seeded)
		}

		var wg sync.WaitGroup
		start := make(chan struct{})
		for _, w := range workers {
			wg.Add(1)
			go func(w *verifC32Worker) {
				defer wg.Done()
				<-start
				w.run(tr)
			}(w)
		}
		// expirer + counter reader
		var expErrs []string
		expired := map[uint64]int{}
		expireRounds := rapid.IntRange(1, 5).Draw(rt, "expireRounds")
		upper := seeded + g*3*6 + sharedIDs
		wg.Add(1)
		go func() {
			defer wg.Done()
			<-start
			for r := 0; r < expireRounds; r++ {
				for _, p := range tr.Expire(50 * time.Second) {
					if p.UID != verifC32OldUID || !staleIDs[p.MessageID] {
						expErrs = append(expErrs, fmt.Sprintf("Expire removed %+v which is not idle past the TTL", p))
					}
					expired[p.MessageID]++
				}
				if c := tr.PendingCount(); c < 0 || c > upper {
					expErrs = append(expErrs, fmt.Sprintf("PendingCount()=%d outside [0,%d]", c, upper))
				}
				runtime.Gosched()
			}
		}()
		close(start)
		wg.Wait()

		// ---- quiescent: judge ----
		var errs []string
		errs = append(errs, expErrs...)
		for _, w := range workers {
			errs = append(errs, w.errs...)
		}
		if len(errs) > 0 {
			rt.Fatalf("%s\nscripts: %s", strings.Join(errs, "\n"), strings.Join(desc, "\n"))
		}
		// one more expiry after the join: now every stale identity must be gone, exactly once
		for _, p := range tr.Expire(50 * time.Second) {
			if p.UID != verifC32OldUID || !staleIDs[p.MessageID] {
				rt.Fatalf("final Expire removed %+v which is not idle past the TTL", p)
			}
			expired[p.MessageID]++
		}
		for mid := range staleIDs {
			if expired[mid] != 1 {
				rt.Fatalf("stale identity old/%d expired %d times, want exactly once", mid, expired[mid])
			}
		}
		real := verifC32RealKeys(tr)
		wantPrivate := 0
		for _, w := range workers {
			for key := range w.model.keys {
				if !real[key] {
					rt.Fatalf("worker %d: outstanding delivery %v missing from the tracker\nscripts: %s", w.id, key, strings.Join(desc, "\n"))
				}
			}
			wantPrivate += len(w.model.keys)
		}
		sharedLeft, privateReal, protectedReal := 0, 0, 0
		for key := range real {
			switch {
			case key.uid == verifC32SharedUID:
				sharedLeft++
			case key.uid == verifC32OldUID:
				protectedReal++
			default:
				privateReal++
			}
		}
		if privateReal != wantPrivate {
			rt.Fatalf("tracker holds %d worker-private identities, models say %d: %v", privateReal, wantPrivate, verifC32SortedKeys(real))
		}
		if protectedReal != nProtected {
			rt.Fatalf("%d of %d identities protected by a fresh in-flight attempt survived expiry", protectedReal, nProtected)
		}
		added, removed := 0, 0
		contended := false
		for _, w := range workers {
			added += w.added
			removed += w.removed
			contended = contended || w.contended
		}
		wantCount := wantPrivate + sharedLeft + nProtected
		if got := tr.PendingCount(); got != wantCount {
			rt.Fatalf("PendingCount()=%d at quiescence, %d distinct deliveries outstanding (%d private, %d shared, %d protected)\nscripts: %s", got, wantCount, wantPrivate, sharedLeft, nProtected, strings.Join(desc, "\n"))
		}
		if added-removed != wantPrivate+sharedLeft {
			rt.Fatalf("API reported %d creations and %d removals by workers, but %d worker identities are outstanding", added, removed, wantPrivate+sharedLeft)
		}
		// drain: protected identities commit their fresh attempt and are acked with it
		for _, p := range protected {
			if !tr.FinishBind(p.row, p.tok) {
				rt.Fatalf("FinishBind of protected fresh attempt failed")
			}
			got, ok := tr.Ack(Recvack{UID: p.row.UID, SessionID: p.row.SessionID, MessageID: p.row.MessageID})
			if !ok || got != p.row {
				rt.Fatalf("Ack(protected)=%+v,%v want %+v", got, ok, p.row)
			}
		}
		if got := len(tr.SessionClosed(verifC32SharedUID, verifC32SharedSID)); got != sharedLeft {
			rt.Fatalf("SessionClosed(shared) removed %d, %d were outstanding", got, sharedLeft)
		}
		if got := tr.PendingCount(); got != wantPrivate {
			rt.Fatalf("PendingCount()=%d after closing the shared session, want %d", got, wantPrivate)
		}
		for _, w := range workers {
			keys := verifC32SortedModelKeys(w.model)
			for _, key := range keys {
				got, ok := tr.Ack(Recvack{UID: key.uid, SessionID: key.sid, MessageID: key.mid})
				if !ok || !w.model.keys[key].metaOK(got) {
					rt.Fatalf("drain Ack(%v)=%+v,%v; model %s", key, got, ok, w.model.keys[key].describe())
				}
			}
		}
		if tr.PendingCount() != 0 || len(verifC32RealKeys(tr)) != 0 {
			rt.Fatalf("after draining PendingCount()=%d, tracker holds %v", tr.PendingCount(), verifC32SortedKeys(verifC32RealKeys(tr)))
		}

		sort.Strings(desc)
		k.Key(shardCount, max, g, nOld, nProtected, strings.Join(desc, "|"))
		k.SetNonTrivial(contended)
		k.LabelIf(contended, "workers collided on a shared identity (refresh of a foreign bind or lost race to cleanup)")
		k.LabelIf(nOld > 0, "stale identities expired during the run")
		k.LabelIf(nProtected > 0, "identity protected by fresh in-flight attempt")
		k.LabelIf(max > 0, "per-session limit configured")
		k.LabelIf(sharedLeft > 0, "shared identities outstanding at quiescence")
		k.LabelIf(shardCount == 1, "single shard")
		k.Sample(func() any {
			return fmt.Sprintf("workers=%d shards=%d max=%d opsPerWorker=%d stale=%d protected=%d sharedLeft=%d privateLeft=%d", g, shardCount, max, nOps, nOld, nProtected, sharedLeft, wantPrivate)
		})
	})
}
