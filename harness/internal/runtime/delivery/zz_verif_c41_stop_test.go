package delivery

// C41 (surface 3/3) — delivery Runtime Stop / Quiesce never drops accepted
// plans. Reuses the C31 runner with a stop-biased generator and a gate that
// keeps presence resolution blocked until the early stop call has returned.
//
// Narrowing (documented design, runtime.go Stop): Runtime.Stop with an expired
// caller deadline cancels the generation ("a failed graceful drain releases
// cooperative adapters"); the no-cancel clause is therefore exercised through
// Quiesce, the variant whose documentation promises it.

import (
	"encoding/json"
	"fmt"
	"strings"
	"testing"

	"pgregory.net/rapid"
	"verif.local/kit"
)

type verifC41DeliveryVerdict struct {
	violations     []string
	expiredBlocked bool
	earlyErr       bool
	kind           string
}

func verifC41JudgeDelivery(h *verifC31History) *verifC41DeliveryVerdict {
	v := &verifC41DeliveryVerdict{}
	fail := func(format string, args ...any) {
		if len(v.violations) < 12 {
			v.violations = append(v.violations, fmt.Sprintf(format, args...))
		}
	}
	if h.Hung != "" || strings.HasPrefix(h.FinalErr, "setup") || len(h.Stops) < 2 {
		return v
	}
	early := h.Stops[0]
	v.kind = early.Kind
	v.earlyErr = early.Err != ""
	if early.BusyAtReturn {
		v.expiredBlocked = true
		if early.Err == "" {
			fail("Quiesce returned nil although an accepted plan was still blocked in a port")
		}
	}
	if early.Err != "" && early.Kind != "quiesce_expired" {
		fail("a patient %s failed: %s", early.Kind, early.Err)
	}
	if early.Err != "" && !strings.Contains(early.Err, "deadline") {
		fail("Quiesce with an expired deadline returned %q, want the context error", early.Err)
	}
	accepted := map[int]verifC31Enqueue{}
	for _, e := range h.Enqueues {
		if e.Err == "" {
			accepted[e.Plan] = e
		}
	}
	if early.Err == "" {
		// the call returned nil: every plan accepted before it began has been executed completely
		done := map[int]int64{}
		for _, c := range h.Presence {
			done[c.Plan] = c.EndTick
		}
		for _, a := range h.Attempts {
			if a.EndTick > done[a.Plan] {
				done[a.Plan] = a.EndTick
			}
		}
		for id, e := range accepted {
			end, ok := done[id]
			if !ok || end > early.ReturnTick {
				fail("%s returned nil at tick %d but accepted plan %d (enqueued at %d) finished at %d", early.Kind, early.ReturnTick, id, e.EndTick, end)
			}
		}
	}
	for _, s := range h.Stops[1:] {
		if s.Kind == "quiesce" && s.Err == "" && h.PendingAcksAtQuiesce != 0 {
			fail("Quiesce returned nil with %d pending recvacks", h.PendingAcksAtQuiesce)
		}
	}
	return v
}

func TestVerifC41DeliveryStop(t *testing.T) {
	col := kit.For(t, "C41")
	kit.Check(t, "C41", func(rt *rapid.T, k *kit.Case) {
		p := verifC31Gen(rt, true)
		gated := p.StopAt >= 0 && rapid.IntRange(0, 3).Draw(rt, "gatePorts") > 0
		h := verifC31Run(p, gated)
		if h.unjoined {
			fmt.Println("VERIF-MACHINERY: C41 delivery harness could not join its goroutines")
			t.Fatalf("VERIF-MACHINERY: goroutines not joined")
		}
		base := verifC31Judge(h)
		v := verifC41JudgeDelivery(h)
		all := append(append([]string(nil), v.violations...), base.violations...)
		if len(all) > 0 {
			verifC31Fail(rt, "C41", t.Name(), h, all)
		}
		if h.Hung != "" {
			col.Inconclusive("deadline while busy")
			rt.Skip("inconclusive")
		}
		b, _ := json.Marshal(h.Params)
		k.Key("delivery", string(b), gated)
		k.SetNonTrivial(v.expiredBlocked)
		k.Label("surface: delivery Runtime.Stop/Quiesce")
		k.LabelIf(v.expiredBlocked, "delivery: Quiesce deadline expired while a plan was blocked")
		k.LabelIf(v.kind == "stop", "delivery: early patient Stop")
		k.LabelIf(v.kind == "quiesce", "delivery: early patient Quiesce")
		k.LabelIf(v.kind == "quiesce_expired", "delivery: early Quiesce with expired deadline")
		k.LabelIf(base.rejected > 0, "delivery: enqueue after stop rejected")
		k.Sample(func() any {
			return fmt.Sprintf("delivery: channels=%d stopAt=%d mode=%d gated=%v accepted=%d rejected=%d", h.Params.Channels, h.Params.StopAt, h.Params.StopMode, gated, base.accepted, base.rejected)
		})
	})
}
