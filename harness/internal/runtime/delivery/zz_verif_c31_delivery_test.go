package delivery

// C31 — online delivery preserves per-channel order and recipient coverage.
//
// Real Runtime against fakes for presence (generated answers), remote owner
// pusher and local session writer (generated latency, retryable-then-success,
// terminal drop, call error), offline observer. One producer goroutine per
// channel enqueues that channel's plans in message_seq order (as the channel
// writer does: one committed envelope in flight per channel). The recorded
// history is judged after Stop returned nil.

import (
	"context"
	"encoding/json"
	"errors"
	"fmt"
	"runtime"
	"sort"
	"strings"
	"sync"
	"sync/atomic"
	"testing"
	"time"

	"github.com/WuKongIM/WuKongIM/internal/contracts/authority"
	channelappendcontract "github.com/WuKongIM/WuKongIM/internal/contracts/channelappend"
	"github.com/WuKongIM/WuKongIM/internal/contracts/onlinedelivery"
	"pgregory.net/rapid"
	"verif.local/kit"
)

const verifC31LocalNode = uint64(1)

// ---- workload ----

type verifC31Route struct {
	UID     string `json:"uid"`
	Owner   uint64 `json:"owner"`
	Boot    uint64 `json:"boot"`
	Session uint64 `json:"session"`
}

func (r verifC31Route) route() onlinedelivery.Route {
	return onlinedelivery.Route{UID: r.UID, OwnerNodeID: r.Owner, OwnerBootID: r.Boot, OwnerSeq: r.Session + 100, SessionID: r.Session, DeviceID: "d" + r.UID}
}

const (
	verifC31ResAccept = iota
	verifC31ResRetry
	verifC31ResDrop
	verifC31ResCallErr // remote only: the whole call returns an error
)

// per (plan, route) script: results of successive attempts; beyond the list: accept
type verifC31RouteScript struct {
	Results   []int `json:"results"`
	LatencyUS int   `json:"latency_us"`
}

type verifC31Target struct {
	Leader     uint64   `json:"leader"`
	Recipients []string `json:"recipients"`
	PresenceErr bool    `json:"presence_err"`
	Offline    []string `json:"offline"` // recipients reported without any route for this plan
}

type verifC31Plan struct {
	ID        int              `json:"id"`
	Channel   int              `json:"channel"`
	Seq       uint64           `json:"seq"`
	MessageID uint64           `json:"message_id"`
	Transient bool             `json:"transient"`
	Targets   []verifC31Target `json:"targets"`
	SenderUID string           `json:"sender_uid"`
	SenderRoute *verifC31Route `json:"sender_route,omitempty"`
	Scripts   map[string]verifC31RouteScript `json:"scripts"` // key: route key
	PresenceUS int             `json:"presence_us"`
	PauseUS   int              `json:"pause_us"`
}

type verifC31Params struct {
	Workers       int                        `json:"workers"`
	QueueSize     int                        `json:"queue_size"`
	PushBatch     int                        `json:"push_batch"`
	OwnerConc     int                        `json:"owner_conc"`
	RetryMax      int                        `json:"retry_max"`
	Channels      int                        `json:"channels"`
	Sessions      map[string][]verifC31Route `json:"sessions"` // uid -> routes
	Plans         [][]verifC31Plan           `json:"plans"`    // per channel, in enqueue order
	StopAt        int                        `json:"stop_at"`  // global enqueue index at which the early stop starts; -1 none
	StopMode      int                        `json:"stop_mode"` // 0 patient Stop, 1 Quiesce with expired deadline, 2 patient Quiesce
}

func verifC31RouteKey(r onlinedelivery.Route) string {
	return fmt.Sprintf("%s@%d/%d/%d", r.UID, r.OwnerNodeID, r.OwnerBootID, r.SessionID)
}

func verifC31Gen(rt *rapid.T, stopBias bool) verifC31Params {
	p := verifC31Params{Sessions: map[string][]verifC31Route{}}
	p.Workers = rapid.IntRange(1, 8).Draw(rt, "workers")
	p.QueueSize = rapid.SampledFrom([]int{1, 2, 4, 16, 64}).Draw(rt, "queue")
	p.PushBatch = rapid.SampledFrom([]int{1, 2, 3, 8, 256}).Draw(rt, "pushBatch")
	p.OwnerConc = rapid.IntRange(1, 4).Draw(rt, "ownerConc")
	p.RetryMax = rapid.IntRange(1, 3).Draw(rt, "retryMax")
	p.Channels = rapid.IntRange(1, 5).Draw(rt, "channels")
	nUsers := rapid.IntRange(2, 10).Draw(rt, "users")
	uids := make([]string, nUsers)
	nextSession := uint64(10)
	for i := range uids {
		uids[i] = fmt.Sprintf("u%d", i)
		n := rapid.SampledFrom([]int{0, 1, 1, 2, 2, 3}).Draw(rt, "userSessions")
		for j := 0; j < n; j++ {
			nextSession++
			owner := uint64(rapid.IntRange(1, 3).Draw(rt, "owner"))
			p.Sessions[uids[i]] = append(p.Sessions[uids[i]], verifC31Route{UID: uids[i], Owner: owner, Boot: 7 + owner, Session: nextSession})
		}
	}
	faultPct := rapid.SampledFrom([]int{0, 10, 30}).Draw(rt, "faultPct")
	slowPct := rapid.SampledFrom([]int{0, 20, 50}).Draw(rt, "slowPct")
	planID := 0
	total := 0
	for ch := 0; ch < p.Channels; ch++ {
		var plans []verifC31Plan
		nMsgs := rapid.IntRange(1, 6).Draw(rt, "messages")
		for m := 1; m <= nMsgs; m++ {
			// recipients of this message, split into 1-2 plans (chunks) like the recipient packer does
			var recips []string
			for _, u := range uids {
				if rapid.IntRange(0, 2).Draw(rt, "isRecipient") > 0 {
					recips = append(recips, u)
				}
			}
			if len(recips) == 0 {
				recips = []string{uids[0]}
			}
			chunks := [][]string{recips}
			if len(recips) > 1 && rapid.IntRange(0, 2).Draw(rt, "split") == 0 {
				k := rapid.IntRange(1, len(recips)-1).Draw(rt, "splitAt")
				chunks = [][]string{recips[:k], recips[k:]}
			}
			transient := rapid.IntRange(0, 7).Draw(rt, "transient") == 0
			sender := ""
			var senderRoute *verifC31Route
			if rapid.IntRange(0, 2).Draw(rt, "senderIsRecipient") == 0 {
				sender = recips[rapid.IntRange(0, len(recips)-1).Draw(rt, "senderIdx")]
				if rs := p.Sessions[sender]; len(rs) > 0 {
					r := rs[rapid.IntRange(0, len(rs)-1).Draw(rt, "senderRoute")]
					senderRoute = &r
				}
			}
			for _, chunk := range chunks {
				plan := verifC31Plan{ID: planID, Channel: ch, Seq: uint64(m), MessageID: uint64(ch+1)*1000 + uint64(m), Transient: transient, SenderUID: sender, SenderRoute: senderRoute, Scripts: map[string]verifC31RouteScript{}}
				planID++
				// group recipients into 1-3 authority targets
				nT := rapid.IntRange(1, 3).Draw(rt, "targets")
				if nT > len(chunk) {
					nT = len(chunk)
				}
				targets := make([]verifC31Target, nT)
				for i := range targets {
					targets[i].Leader = uint64(i + 1)
				}
				for i, u := range chunk {
					t := &targets[i%nT]
					t.Recipients = append(t.Recipients, u)
					if rapid.IntRange(0, 99).Draw(rt, "churn") < 10 {
						t.Offline = append(t.Offline, u)
					}
				}
				for i := range targets {
					if rapid.IntRange(0, 99).Draw(rt, "presenceErr") < faultPct/2 {
						targets[i].PresenceErr = true
					}
				}
				plan.Targets = targets
				for _, u := range chunk {
					for _, r := range p.Sessions[u] {
						sc := verifC31RouteScript{}
						if rapid.IntRange(0, 99).Draw(rt, "routeFault") < faultPct {
							n := rapid.IntRange(1, 3).Draw(rt, "routeResults")
							for k := 0; k < n; k++ {
								sc.Results = append(sc.Results, rapid.SampledFrom([]int{verifC31ResRetry, verifC31ResRetry, verifC31ResDrop, verifC31ResCallErr}).Draw(rt, "routeResult"))
							}
						}
						if rapid.IntRange(0, 99).Draw(rt, "routeSlow") < slowPct {
							sc.LatencyUS = rapid.IntRange(1, 600).Draw(rt, "latencyUS")
						}
						if len(sc.Results) > 0 || sc.LatencyUS > 0 {
							plan.Scripts[verifC31RouteKey(r.route())] = sc
						}
					}
				}
				if rapid.IntRange(0, 99).Draw(rt, "presenceSlow") < slowPct {
					plan.PresenceUS = rapid.IntRange(1, 500).Draw(rt, "presenceUS")
				}
				if rapid.IntRange(0, 4).Draw(rt, "pause") == 0 {
					plan.PauseUS = rapid.IntRange(1, 300).Draw(rt, "pauseUS")
				}
				plans = append(plans, plan)
				total++
			}
		}
		p.Plans = append(p.Plans, plans)
	}
	p.StopAt = -1
	roll := rapid.IntRange(0, 9).Draw(rt, "stopRoll")
	if (stopBias && roll < 8) || (!stopBias && roll < 2) {
		p.StopAt = rapid.IntRange(0, total).Draw(rt, "stopAt")
		if stopBias && total > 1 {
			p.StopAt = rapid.IntRange(1, total-1).Draw(rt, "stopAtMid")
		}
		if stopBias {
			p.StopMode = rapid.IntRange(0, 2).Draw(rt, "stopMode")
		}
	}
	return p
}

// ---- fakes + history ----

type verifC31Attempt struct {
	Plan      int    `json:"plan"`
	Route     string `json:"route"`
	Owner     uint64 `json:"owner"`
	Local     bool   `json:"local"`
	Call      int    `json:"call"`
	StartTick int64  `json:"start_tick"`
	EndTick   int64  `json:"end_tick"`
	Result    int    `json:"result"`
	Channel   string `json:"channel"`
	Seq       uint64 `json:"seq"`
	MessageID uint64 `json:"message_id"`
	CtxErr    string `json:"ctx_err,omitempty"`
	raw       onlinedelivery.Route
}

type verifC31PresenceCall struct {
	Plan      int   `json:"plan"`
	StartTick int64 `json:"start_tick"`
	EndTick   int64 `json:"end_tick"`
	CtxErr    string `json:"ctx_err,omitempty"`
}

type verifC31OfflineEvent struct {
	Plan int      `json:"plan"`
	UIDs []string `json:"uids"`
	Tick int64    `json:"tick"`
}

type verifC31Enqueue struct {
	Plan      int    `json:"plan"`
	StartTick int64  `json:"start_tick"`
	EndTick   int64  `json:"end_tick"`
	Err       string `json:"err,omitempty"`
	Closed    bool   `json:"closed"`
}

type verifC31Stop struct {
	Kind       string `json:"kind"`
	BeginTick  int64  `json:"begin_tick"`
	ReturnTick int64  `json:"return_tick"`
	Err        string `json:"err,omitempty"`
	BusyAtReturn bool `json:"busy_at_return"`
}

type verifC31World struct {
	p        *verifC31Params
	plans    map[int]*verifC31Plan
	clock    atomic.Int64
	mu       sync.Mutex
	attempts []*verifC31Attempt
	presence []verifC31PresenceCall
	offline  []verifC31OfflineEvent
	counts   map[string]int // plan|route -> attempts so far
	calls    int
	inflight atomic.Int64
	progress atomic.Int64
	gate     chan struct{}
	gateOnce sync.Once
}

func (w *verifC31World) openGate() {
	if w.gate != nil {
		w.gateOnce.Do(func() { close(w.gate) })
	}
}

func verifC31Sleep(us int) {
	if us <= 0 {
		return
	}
	if us < 30 {
		runtime.Gosched()
		return
	}
	time.Sleep(time.Duration(us) * time.Microsecond)
}

func verifC31PlanOf(ev channelappendcontract.CommittedEnvelope) int {
	id := -1
	fmt.Sscanf(ev.ClientMsgNo, "plan-%d", &id)
	return id
}

type verifC31Presence struct{ w *verifC31World }

func (f verifC31Presence) EndpointsByTargets(ctx context.Context, targets []onlinedelivery.RecipientTargetBatch) []TargetPresenceResult {
	w := f.w
	w.inflight.Add(1)
	defer w.inflight.Add(-1)
	planID := -1
	if len(targets) > 0 {
		planID = int(targets[0].Target.RouteRevision) - 1
	}
	call := verifC31PresenceCall{Plan: planID, StartTick: w.clock.Add(1)}
	w.progress.Add(1)
	if w.gate != nil {
		<-w.gate
	}
	plan := w.plans[planID]
	out := make([]TargetPresenceResult, len(targets))
	if plan != nil {
		verifC31Sleep(plan.PresenceUS)
		for i := range targets {
			if i >= len(plan.Targets) {
				continue
			}
			pt := plan.Targets[i]
			if pt.PresenceErr {
				out[i].Err = errors.New("verif: presence group failure")
				continue
			}
			off := map[string]bool{}
			for _, u := range pt.Offline {
				off[u] = true
			}
			for _, rc := range targets[i].Recipients {
				if off[rc.UID] {
					continue
				}
				for _, r := range w.p.Sessions[rc.UID] {
					out[i].Routes = append(out[i].Routes, r.route())
				}
			}
		}
	}
	if ctx.Err() != nil {
		call.CtxErr = ctx.Err().Error()
	}
	call.EndTick = w.clock.Add(1)
	w.mu.Lock()
	w.presence = append(w.presence, call)
	w.mu.Unlock()
	return out
}

// attempt records one exact-route push attempt and returns its scripted result.
func (w *verifC31World) attempt(ctx context.Context, ev channelappendcontract.CommittedEnvelope, route onlinedelivery.Route, owner uint64, local bool, call int) int {
	planID := verifC31PlanOf(ev)
	key := verifC31RouteKey(route)
	a := &verifC31Attempt{Plan: planID, Route: key, Owner: owner, Local: local, Call: call, Channel: ev.ChannelID, Seq: ev.MessageSeq, MessageID: ev.MessageID, raw: route}
	w.mu.Lock()
	n := w.counts[fmt.Sprintf("%d|%s", planID, key)]
	w.counts[fmt.Sprintf("%d|%s", planID, key)] = n + 1
	a.StartTick = w.clock.Add(1)
	w.attempts = append(w.attempts, a)
	w.mu.Unlock()
	w.progress.Add(1)
	res := verifC31ResAccept
	lat := 0
	if plan := w.plans[planID]; plan != nil {
		if sc, ok := plan.Scripts[key]; ok {
			lat = sc.LatencyUS
			if n < len(sc.Results) {
				res = sc.Results[n]
			}
		}
	}
	verifC31Sleep(lat)
	if res == verifC31ResCallErr && local {
		res = verifC31ResRetry
	}
	w.mu.Lock()
	a.Result = res
	if ctx.Err() != nil {
		a.CtxErr = ctx.Err().Error()
	}
	a.EndTick = w.clock.Add(1)
	w.mu.Unlock()
	return res
}

type verifC31Remote struct{ w *verifC31World }

func (f verifC31Remote) PushOwner(ctx context.Context, push onlinedelivery.OwnerPush) (onlinedelivery.OwnerPushResult, error) {
	w := f.w
	w.inflight.Add(1)
	defer w.inflight.Add(-1)
	w.mu.Lock()
	w.calls++
	call := w.calls
	w.mu.Unlock()
	var res onlinedelivery.OwnerPushResult
	callErr := false
	for _, r := range push.Routes {
		switch w.attempt(ctx, push.Event, r, push.OwnerNodeID, false, call) {
		case verifC31ResAccept:
			res.Accepted = append(res.Accepted, r)
		case verifC31ResRetry:
			res.Retryable = append(res.Retryable, r)
		case verifC31ResDrop:
			res.Dropped = append(res.Dropped, r)
		case verifC31ResCallErr:
			callErr = true
		}
	}
	if callErr {
		// a transport-level failure: no classification is returned at all
		w.mu.Lock()
		for _, a := range w.attempts {
			if a.Call == call {
				a.Result = verifC31ResCallErr
			}
		}
		w.mu.Unlock()
		return onlinedelivery.OwnerPushResult{}, errors.New("verif: remote owner push transport error")
	}
	return res, nil
}

type verifC31Writer struct{ w *verifC31World }

func (f verifC31Writer) WriteSession(ctx context.Context, write LocalSessionWrite) SessionWriteResult {
	w := f.w
	w.inflight.Add(1)
	defer w.inflight.Add(-1)
	switch w.attempt(ctx, write.Event, write.Route, write.Route.OwnerNodeID, true, 0) {
	case verifC31ResAccept:
		return SessionWriteResult{Disposition: SessionWriteAccepted}
	case verifC31ResDrop:
		return SessionWriteResult{Disposition: SessionWriteDropped, Err: errors.New("verif: stale session")}
	default:
		return SessionWriteResult{Disposition: SessionWriteRetryable, Err: errors.New("verif: session busy")}
	}
}

type verifC31Offline struct{ w *verifC31World }

func (f verifC31Offline) ObserveOfflineRecipients(_ context.Context, ev OfflineRecipientsEvent) {
	w := f.w
	w.mu.Lock()
	w.offline = append(w.offline, verifC31OfflineEvent{Plan: verifC31PlanOf(ev.Event), UIDs: append([]string(nil), ev.UIDs...), Tick: w.clock.Add(1)})
	w.mu.Unlock()
	w.progress.Add(1)
}

type verifC31History struct {
	Params    verifC31Params         `json:"params"`
	Enqueues  []verifC31Enqueue      `json:"enqueues"`
	Presence  []verifC31PresenceCall `json:"presence"`
	Attempts  []*verifC31Attempt     `json:"attempts"`
	Offline   []verifC31OfflineEvent `json:"offline"`
	Stops     []verifC31Stop         `json:"stops"`
	Hung      string                 `json:"hung,omitempty"`
	FinalErr  string                 `json:"final_err,omitempty"`
	LateEnqueueErr string            `json:"late_enqueue_err"`
	PendingAcksAtQuiesce int         `json:"pending_acks_at_quiesce"`
	TrafficUS int64                  `json:"traffic_us"`
	unjoined  bool
}

func verifC31WaitTimeout() time.Duration {
	return time.Duration(kit.Scale("C31_WAIT_S", 30, 60)) * time.Second
}

func verifC31BuildPlan(pl *verifC31Plan) onlinedelivery.RecipientDeliveryPlan {
	mode := onlinedelivery.ModeDurable
	if pl.Transient {
		mode = onlinedelivery.ModeTransient
	}
	ev := channelappendcontract.CommittedEnvelope{
		MessageID: pl.MessageID, MessageSeq: pl.Seq, ChannelID: fmt.Sprintf("g%d", pl.Channel), ChannelType: 2,
		FromUID: pl.SenderUID, ClientMsgNo: fmt.Sprintf("plan-%d", pl.ID), Payload: []byte("x"),
	}
	if ev.FromUID == "" {
		ev.FromUID = "outsider"
	}
	if pl.SenderRoute != nil {
		ev.SenderNodeID = pl.SenderRoute.Owner
		ev.SenderSessionID = pl.SenderRoute.Session
	}
	out := onlinedelivery.RecipientDeliveryPlan{Mode: mode, Event: ev}
	for _, t := range pl.Targets {
		b := onlinedelivery.RecipientTargetBatch{Target: authority.Target{SlotID: uint32(t.Leader), LeaderNodeID: t.Leader, LeaderTerm: 1, RouteRevision: uint64(pl.ID + 1)}}
		for _, u := range t.Recipients {
			b.Recipients = append(b.Recipients, channelappendcontract.Recipient{UID: u})
		}
		out.Targets = append(out.Targets, b)
	}
	return out
}

// verifC31Run executes one workload. gate (C41) blocks presence resolution
// until the early stop call returned.
func verifC31Run(p verifC31Params, gate bool) *verifC31History {
	w := &verifC31World{p: &p, plans: map[int]*verifC31Plan{}, counts: map[string]int{}}
	for ch := range p.Plans {
		for i := range p.Plans[ch] {
			w.plans[p.Plans[ch][i].ID] = &p.Plans[ch][i]
		}
	}
	if gate && p.StopAt >= 0 {
		w.gate = make(chan struct{})
	}
	h := &verifC31History{Params: p}
	r := NewRuntime(RuntimeOptions{
		LocalNodeID: verifC31LocalNode, Presence: verifC31Presence{w}, RemoteOwnerPusher: verifC31Remote{w}, SessionWriter: verifC31Writer{w},
		OfflineRecipientsObserver: verifC31Offline{w}, QueueSize: p.QueueSize, Workers: p.Workers, PlanTimeout: 10 * time.Minute,
		OwnerPushBatchSize: p.PushBatch, OwnerConcurrency: p.OwnerConc, RetryMaxAttempts: p.RetryMax,
		RetryInitialBackoff: 50 * time.Microsecond, RetryMaxBackoff: 200 * time.Microsecond,
	})
	if err := r.Start(context.Background()); err != nil {
		h.FinalErr = "setup: " + err.Error()
		return h
	}
	caseCtx, cancelCase := context.WithCancel(context.Background())
	defer cancelCase()
	var histMu sync.Mutex
	var enqCounter atomic.Int64
	var stopOnce sync.Once
	var wg sync.WaitGroup
	busy := func() bool { return w.inflight.Load() > 0 }
	stopAt := p.StopAt
	if w.gate != nil && len(p.Plans) > 0 {
		// with blocked ports only the first enqueue of every producer is certain to start
		stopAt = p.StopAt % len(p.Plans)
		h.Params.StopAt = stopAt
	}
	earlyStop := func() {
		stopOnce.Do(func() {
			wg.Add(1)
			go func() {
				defer wg.Done()
				rec := verifC31Stop{BeginTick: w.clock.Add(1)}
				var err error
				switch p.StopMode {
				case 1:
					rec.Kind = "quiesce_expired"
					if w.gate != nil && stopAt > 0 {
						// scheduling aid only: let an accepted plan reach the (blocked) presence port
						for i := 0; i < 300 && !busy(); i++ {
							time.Sleep(100 * time.Microsecond)
						}
					}
					ctx, cancel := context.WithDeadline(context.Background(), time.Now().Add(-time.Second))
					err = r.Quiesce(ctx)
					cancel()
					rec.BusyAtReturn = w.gate != nil && busy()
				case 2:
					rec.Kind = "quiesce"
					w.openGate()
					ctx, cancel := context.WithTimeout(caseCtx, verifC31WaitTimeout())
					// pending recvacks keep Quiesce waiting: close every session like departing clients do
					done := make(chan struct{})
					go func() {
						defer close(done)
						for {
							for uid, rs := range p.Sessions {
								for _, s := range rs {
									_ = r.SessionClosed(context.Background(), SessionClosed{UID: uid, SessionID: s.Session})
								}
							}
							select {
							case <-ctx.Done():
								return
							case <-time.After(time.Millisecond):
							}
						}
					}()
					err = r.Quiesce(ctx)
					cancel()
					<-done
				default:
					rec.Kind = "stop"
					w.openGate()
					ctx, cancel := context.WithTimeout(caseCtx, verifC31WaitTimeout())
					err = r.Stop(ctx)
					cancel()
				}
				rec.ReturnTick = w.clock.Add(1)
				if err != nil {
					rec.Err = err.Error()
				}
				histMu.Lock()
				h.Stops = append(h.Stops, rec)
				histMu.Unlock()
				w.openGate()
			}()
		})
	}

	t0 := time.Now()
	for ch := range p.Plans {
		wg.Add(1)
		go func(ch int) {
			defer wg.Done()
			for i := range p.Plans[ch] {
				pl := &p.Plans[ch][i]
				if int(enqCounter.Add(1)-1) == stopAt {
					earlyStop()
				}
				verifC31Sleep(pl.PauseUS)
				rec := verifC31Enqueue{Plan: pl.ID, StartTick: w.clock.Add(1)}
				err := r.EnqueueRecipientDeliveryPlan(caseCtx, verifC31BuildPlan(pl))
				rec.EndTick = w.clock.Add(1)
				if err != nil {
					rec.Err = err.Error()
					rec.Closed = errors.Is(err, ErrRuntimeClosed)
				}
				histMu.Lock()
				h.Enqueues = append(h.Enqueues, rec)
				histMu.Unlock()
			}
		}(ch)
	}
	joined := make(chan struct{})
	go func() { wg.Wait(); close(joined) }()
	waitJoin := func() bool {
		timer := time.NewTimer(verifC31WaitTimeout())
		defer timer.Stop()
		select {
		case <-joined:
			return true
		case <-timer.C:
			return false
		}
	}
	classifyHang := func() string {
		last := w.progress.Load()
		for i := 0; i < 200; i++ {
			if busy() {
				return "busy"
			}
			time.Sleep(5 * time.Millisecond)
			if now := w.progress.Load(); now != last {
				return "busy"
			}
		}
		return "quiescent"
	}
	if !waitJoin() {
		h.Hung = classifyHang()
		w.openGate()
		cancelCase()
		if !waitJoin() {
			h.unjoined = true
			return h
		}
	}
	h.TrafficUS = time.Since(t0).Microseconds()
	w.openGate()

	// final quiescent point: a patient Stop (joins an earlier Stop/Quiesce)
	if h.Hung == "" {
		if p.StopAt >= 0 && p.StopMode == 1 {
			// the expired Quiesce left the drain running: it must still complete
			ctx, cancel := context.WithTimeout(context.Background(), verifC31WaitTimeout())
			stopSessions := make(chan struct{})
			sessionsDone := make(chan struct{})
			go func() {
				defer close(sessionsDone)
				for {
					for uid, rs := range p.Sessions {
						for _, s := range rs {
							_ = r.SessionClosed(context.Background(), SessionClosed{UID: uid, SessionID: s.Session})
						}
					}
					select {
					case <-stopSessions:
						return
					case <-time.After(time.Millisecond):
					}
				}
			}()
			rec := verifC31Stop{Kind: "quiesce", BeginTick: w.clock.Add(1)}
			err := r.Quiesce(ctx)
			cancel()
			close(stopSessions)
			<-sessionsDone
			rec.ReturnTick = w.clock.Add(1)
			if err != nil {
				rec.Err = err.Error()
				h.FinalErr = err.Error()
				h.Hung = classifyHang()
			}
			h.PendingAcksAtQuiesce = r.PendingAckCount()
			h.Stops = append(h.Stops, rec)
		}
	}
	if h.Hung == "" {
		ctx, cancel := context.WithTimeout(context.Background(), verifC31WaitTimeout())
		rec := verifC31Stop{Kind: "stop", BeginTick: w.clock.Add(1)}
		err := r.Stop(ctx)
		cancel()
		rec.ReturnTick = w.clock.Add(1)
		if err != nil {
			rec.Err = err.Error()
			h.FinalErr = err.Error()
			h.Hung = classifyHang()
		}
		h.Stops = append(h.Stops, rec)
		if err == nil {
			late := r.EnqueueRecipientDeliveryPlan(context.Background(), verifC31BuildPlan(&verifC31Plan{ID: 1 << 20, MessageID: 99, Seq: 1, Targets: []verifC31Target{{Leader: 1, Recipients: []string{"late"}}}}))
			if late != nil {
				h.LateEnqueueErr = late.Error()
				if errors.Is(late, ErrRuntimeClosed) {
					h.LateEnqueueErr = "closed"
				}
			}
		}
	} else {
		// release whatever is left so the goroutines of this case end
		ctx, cancel := context.WithDeadline(context.Background(), time.Now().Add(-time.Second))
		_ = r.Stop(ctx)
		cancel()
	}
	w.mu.Lock()
	h.Attempts = w.attempts
	h.Presence = w.presence
	h.Offline = w.offline
	w.mu.Unlock()
	sort.SliceStable(h.Enqueues, func(i, j int) bool { return h.Enqueues[i].Plan < h.Enqueues[j].Plan })
	return h
}

// ---- oracle ----

type verifC31Verdict struct {
	violations   []string
	retryFollowedByQueued bool // NT: a plan had a retryable failure while its channel successor was already enqueued
	anyRetry     bool
	anyDrop      bool
	anyCallErr   bool
	exhausted    bool
	offlineSeen  bool
	presenceErr  bool
	suppressed   bool
	rejected     int
	accepted     int
	pushes       int
	twoInFlight  bool
}

func (v *verifC31Verdict) fail(format string, args ...any) {
	if len(v.violations) < 12 {
		v.violations = append(v.violations, fmt.Sprintf(format, args...))
	}
}

func verifC31Judge(h *verifC31History) *verifC31Verdict {
	v := &verifC31Verdict{}
	p := h.Params
	if h.Hung == "quiescent" {
		v.fail("accepted delivery work never finished: Stop/Quiesce still waiting while every port is idle and nothing progresses (%s)", h.FinalErr)
		return v
	}
	if h.Hung != "" || strings.HasPrefix(h.FinalErr, "setup") {
		return v
	}
	plans := map[int]*verifC31Plan{}
	for ch := range p.Plans {
		for i := range p.Plans[ch] {
			plans[p.Plans[ch][i].ID] = &p.Plans[ch][i]
		}
	}
	enq := map[int]verifC31Enqueue{}
	for _, e := range h.Enqueues {
		enq[e.Plan] = e
		if e.Err == "" {
			v.accepted++
		} else {
			v.rejected++
			if !e.Closed {
				v.fail("plan %d: enqueue failed with %q (only ErrRuntimeClosed is expected)", e.Plan, e.Err)
			}
		}
	}
	var stopReturned int64 = -1
	if len(h.Stops) > 0 {
		stopReturned = h.Stops[0].ReturnTick
		for _, s := range h.Stops {
			if s.ReturnTick < stopReturned {
				stopReturned = s.ReturnTick
			}
		}
	}
	// every accepted plan is processed exactly once, rejected plans never
	presenceByPlan := map[int][]verifC31PresenceCall{}
	for _, c := range h.Presence {
		presenceByPlan[c.Plan] = append(presenceByPlan[c.Plan], c)
		if c.CtxErr != "" {
			v.fail("plan %d: presence resolution ran with a cancelled context (%s)", c.Plan, c.CtxErr)
		}
	}
	for id := range plans {
		e, ok := enq[id]
		n := len(presenceByPlan[id])
		switch {
		case !ok:
			if n != 0 {
				v.fail("plan %d was never enqueued but was processed", id)
			}
		case e.Err == "" && n != 1:
			v.fail("plan %d was accepted but processed %d times by the time Stop returned nil", id, n)
		case e.Err != "" && n != 0:
			v.fail("plan %d was rejected (%s) but processed anyway", id, e.Err)
		}
		if ok && e.Err == "" && stopReturned >= 0 && e.StartTick > stopReturned {
			v.fail("plan %d was admitted although its enqueue started after a Stop/Quiesce call had returned", id)
		}
	}
	if h.LateEnqueueErr != "closed" && h.FinalErr == "" {
		v.fail("an enqueue after Stop returned nil was not rejected with ErrRuntimeClosed (got %q)", h.LateEnqueueErr)
	}

	// attempts per plan
	byPlan := map[int][]*verifC31Attempt{}
	for _, a := range h.Attempts {
		byPlan[a.Plan] = append(byPlan[a.Plan], a)
		v.pushes++
		if a.CtxErr != "" {
			v.fail("plan %d: push to %s ran with a cancelled context (%s)", a.Plan, a.Route, a.CtxErr)
		}
	}
	offlineByPlan := map[int][]verifC31OfflineEvent{}
	for _, o := range h.Offline {
		offlineByPlan[o.Plan] = append(offlineByPlan[o.Plan], o)
		v.offlineSeen = true
	}
	for id, pl := range plans {
		e, ok := enq[id]
		if !ok || e.Err != "" {
			if len(byPlan[id]) > 0 || len(offlineByPlan[id]) > 0 {
				v.fail("plan %d was not accepted but produced pushes/offline events", id)
			}
			continue
		}
		// expected exact routes and offline recipients of this plan
		wantRoutes := map[string]onlinedelivery.Route{}
		wantOffline := map[string]bool{}
		silent := map[string]bool{} // recipients of a target whose presence failed
		for _, t := range pl.Targets {
			if t.PresenceErr {
				v.presenceErr = true
				for _, u := range t.Recipients {
					silent[u] = true
				}
				continue
			}
			off := map[string]bool{}
			for _, u := range t.Offline {
				off[u] = true
			}
			for _, u := range t.Recipients {
				rs := p.Sessions[u]
				if off[u] || len(rs) == 0 {
					wantOffline[u] = true
					continue
				}
				for _, r := range rs {
					route := r.route()
					if pl.SenderRoute != nil && pl.SenderUID == u && pl.SenderRoute.Session == r.Session && pl.SenderRoute.Owner == r.Owner {
						v.suppressed = true
						continue // the sender's own connection is not echoed
					}
					wantRoutes[verifC31RouteKey(route)] = route
				}
			}
		}
		// offline: durable plans report each offline recipient exactly once, in one batch
		offs := offlineByPlan[id]
		if pl.Transient {
			if len(offs) != 0 {
				v.fail("plan %d is transient but produced an offline batch", id)
			}
		} else {
			if len(offs) > 1 {
				v.fail("plan %d produced %d offline batches (one per plan)", id, len(offs))
			}
			got := map[string]int{}
			for _, o := range offs {
				for _, u := range o.UIDs {
					got[u]++
				}
			}
			for u, n := range got {
				if !wantOffline[u] {
					v.fail("plan %d: %s reported offline although it %s", id, u, map[bool]string{true: "belongs to a target whose presence lookup failed", false: "has online routes / is no recipient"}[silent[u]])
				}
				if n > 1 {
					v.fail("plan %d: %s reported offline %d times", id, u, n)
				}
			}
			for u := range wantOffline {
				if got[u] == 0 {
					v.fail("plan %d: recipient %s has no online route but was not reported offline", id, u)
				}
			}
		}
		// pushes: only to exact resolved routes, every resolved route attempted, retries only after retryable
		seq := map[string][]*verifC31Attempt{}
		for _, a := range byPlan[id] {
			want, ok := wantRoutes[a.Route]
			if !ok {
				v.fail("plan %d: push to %s, which is not a resolved route of this plan (recipient offline, other plan, sender echo or invented)", id, a.Route)
				continue
			}
			if a.raw != want {
				v.fail("plan %d: push route %+v differs from the resolved route %+v", id, a.raw, want)
			}
			if a.Owner != want.OwnerNodeID || a.Local != (want.OwnerNodeID == verifC31LocalNode) {
				v.fail("plan %d: route %s pushed through owner %d (local=%v)", id, a.Route, a.Owner, a.Local)
			}
			if a.Seq != pl.Seq || a.MessageID != pl.MessageID || a.Channel != fmt.Sprintf("g%d", pl.Channel) {
				v.fail("plan %d: push to %s carries message (%s seq %d id %d), the plan's message is (g%d seq %d id %d)", id, a.Route, a.Channel, a.Seq, a.MessageID, pl.Channel, pl.Seq, pl.MessageID)
			}
			seq[a.Route] = append(seq[a.Route], a)
		}
		for key := range wantRoutes {
			as := seq[key]
			if len(as) == 0 {
				v.fail("plan %d: resolved online route %s was never pushed", id, key)
				continue
			}
			if len(as) > p.RetryMax {
				v.fail("plan %d: route %s attempted %d times, retry limit is %d", id, key, len(as), p.RetryMax)
			}
			for i, a := range as {
				last := i == len(as)-1
				switch a.Result {
				case verifC31ResRetry:
					v.anyRetry = true
				case verifC31ResDrop:
					v.anyDrop = true
				case verifC31ResCallErr:
					v.anyCallErr = true
				}
				if !last && a.Result != verifC31ResRetry && a.Result != verifC31ResCallErr {
					// a sibling's transport error re-sends the whole remote call, including already classified routes
					sibling := false
					if !a.Local {
						for _, b := range byPlan[id] {
							if b.Call == a.Call && b.Result == verifC31ResCallErr {
								sibling = true
							}
						}
					}
					if !sibling {
						v.fail("plan %d: route %s was pushed again after a terminal result (%d) -- retries must be narrowed to retryable routes", id, key, a.Result)
					}
				}
				if last && (a.Result == verifC31ResRetry || a.Result == verifC31ResCallErr) {
					if len(as) < p.RetryMax {
						v.fail("plan %d: route %s still retryable after %d attempt(s) but not retried (limit %d)", id, key, len(as), p.RetryMax)
					}
					v.exhausted = true
				}
			}
		}
	}

	// order: per exact session and channel, attempts carry non-decreasing message_seq
	type okey struct{ route, channel string }
	all := append([]*verifC31Attempt(nil), h.Attempts...)
	sort.SliceStable(all, func(i, j int) bool { return all[i].StartTick < all[j].StartTick })
	last := map[okey]*verifC31Attempt{}
	for _, a := range all {
		k := okey{a.Route, a.Channel}
		if prev := last[k]; prev != nil && a.Seq < prev.Seq {
			v.fail("session %s channel %s: message_seq %d (plan %d) pushed after message_seq %d (plan %d)", a.Route, a.Channel, a.Seq, a.Plan, prev.Seq, prev.Plan)
		}
		last[k] = a
	}
	// plans of one channel never overlap (complete execution of a plan precedes the next)
	type span struct {
		plan       int
		start, end int64
	}
	spans := map[int][]span{}
	for id, pl := range plans {
		cs := presenceByPlan[id]
		if len(cs) != 1 {
			continue
		}
		s := span{plan: id, start: cs[0].StartTick, end: cs[0].EndTick}
		for _, a := range byPlan[id] {
			if a.EndTick > s.end {
				s.end = a.EndTick
			}
		}
		for _, o := range offlineByPlan[id] {
			if o.Tick > s.end {
				s.end = o.Tick
			}
		}
		spans[pl.Channel] = append(spans[pl.Channel], s)
	}
	for ch, ss := range spans {
		sort.Slice(ss, func(i, j int) bool { return ss[i].start < ss[j].start })
		for i := 1; i < len(ss); i++ {
			if ss[i].start < ss[i-1].end {
				v.fail("channel g%d: plan %d started while plan %d of the same channel was still executing", ch, ss[i].plan, ss[i-1].plan)
			}
			if ss[i].plan < ss[i-1].plan {
				v.fail("channel g%d: plan %d executed before plan %d (enqueue order is FIFO per channel)", ch, ss[i-1].plan, ss[i].plan)
			}
			// measured: successor already enqueued while the predecessor was executing
			if e, ok := enq[ss[i].plan]; ok && e.EndTick < ss[i-1].end {
				v.twoInFlight = true
				for _, a := range byPlan[ss[i-1].plan] {
					if a.Result == verifC31ResRetry || a.Result == verifC31ResCallErr {
						v.retryFollowedByQueued = true
					}
				}
			}
		}
	}
	return v
}

func verifC31Fail(rt *rapid.T, prop, test string, h any, violations []string) {
	b, _ := json.MarshalIndent(map[string]any{"violations": violations, "history": h}, "", " ")
	path := kit.SaveReplay(prop, test, "json", b)
	rt.Fatalf("%s violated (recorded history: %s):\n  %s", prop, path, strings.Join(violations, "\n  "))
}

func TestVerifC31DeliveryOrderCoverage(t *testing.T) {
	col := kit.For(t, "C31")
	kit.Check(t, "C31", func(rt *rapid.T, k *kit.Case) {
		p := verifC31Gen(rt, false)
		h := verifC31Run(p, false)
		if h.unjoined {
			fmt.Println("VERIF-MACHINERY: C31 harness could not join its goroutines")
			t.Fatalf("VERIF-MACHINERY: goroutines not joined")
		}
		v := verifC31Judge(h)
		if len(v.violations) > 0 {
			verifC31Fail(rt, "C31", t.Name(), h, v.violations)
		}
		if h.Hung != "" {
			col.Inconclusive("deadline while busy")
			rt.Skip("inconclusive")
		}
		b, _ := json.Marshal(p)
		k.Key(string(b))
		k.SetNonTrivial(v.retryFollowedByQueued)
		k.LabelIf(v.twoInFlight, ">=2 plans of one channel in flight")
		k.LabelIf(v.retryFollowedByQueued, "retryable failure while the channel's next plan was queued")
		k.LabelIf(v.anyRetry, "retryable route result")
		k.LabelIf(v.anyDrop, "terminal drop")
		k.LabelIf(v.anyCallErr, "remote call error")
		k.LabelIf(v.exhausted, "retry exhausted")
		k.LabelIf(v.offlineSeen, "offline batch")
		k.LabelIf(v.presenceErr, "presence group failure")
		k.LabelIf(v.suppressed, "sender echo suppressed")
		k.LabelIf(v.rejected > 0, "enqueue rejected after stop")
		k.LabelIf(len(h.Stops) > 1, "early stop")
		col.AddExtra("traffic_us", h.TrafficUS)
		col.AddExtra("plans_accepted", int64(v.accepted))
		col.AddExtra("push_attempts", int64(v.pushes))
		k.Sample(func() any {
			return fmt.Sprintf("channels=%d workers=%d queue=%d plans=%d rejected=%d pushes=%d", p.Channels, p.Workers, p.QueueSize, v.accepted, v.rejected, v.pushes)
		})
	})
}
