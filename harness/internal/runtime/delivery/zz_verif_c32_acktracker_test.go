package delivery

import (
	"fmt"
	"sort"
	"strings"
	"testing"
	"time"

	"pgregory.net/rapid"
	"verif.local/kit"
)

// ---------------------------------------------------------------------------
// Reference model of the receive-ack tracker, written from the documented
// contract (FLOW.md "Owner-local Push and ACK Flow", doc comments of
// AckTracker): a pending identity is (uid, session, message); it exists while
// it is committed (some delivery attempt finished successfully) or at least one
// bind attempt is still in flight; every attempt owns one opaque token.
// ---------------------------------------------------------------------------

type verifC32Key struct {
	uid string
	sid uint64
	mid uint64
}

func (k verifC32Key) String() string { return fmt.Sprintf("%s/%d/%d", k.uid, k.sid, k.mid) }

type verifC32Attempt struct {
	tok  AckBindToken
	meta PendingRecvAck // as stored: DeliveredAt already resolved
}

type verifC32Entry struct {
	committed bool
	meta      PendingRecvAck // metadata of the last successful finish
	attempts  []verifC32Attempt
}

type verifC32Model struct {
	keys map[verifC32Key]*verifC32Entry
	max  int
}

func verifC32NewModel(max int) *verifC32Model {
	return &verifC32Model{keys: map[verifC32Key]*verifC32Entry{}, max: max}
}

func verifC32KeyOf(p PendingRecvAck) verifC32Key {
	return verifC32Key{uid: p.UID, sid: p.SessionID, mid: p.MessageID}
}

func verifC32ValidRow(p PendingRecvAck) bool {
	return p.UID != "" && p.SessionID != 0 && p.MessageID != 0
}

func (m *verifC32Model) sessionSize(uid string, sid uint64) int {
	n := 0
	for k := range m.keys {
		if k.uid == uid && k.sid == sid {
			n++
		}
	}
	return n
}

// bindAllowed: would one more bind attempt for row be admitted, and does it
// create the identity.
func (m *verifC32Model) bindAllowed(row PendingRecvAck) (bound, added bool) {
	if !verifC32ValidRow(row) {
		return false, false
	}
	_, exists := m.keys[verifC32KeyOf(row)]
	if !exists && m.max > 0 && m.sessionSize(row.UID, row.SessionID) >= m.max {
		return false, false
	}
	return true, !exists
}

func (m *verifC32Model) addAttempt(row PendingRecvAck, now int64, tok AckBindToken) {
	if row.DeliveredAt == 0 {
		row.DeliveredAt = now
	}
	k := verifC32KeyOf(row)
	e := m.keys[k]
	if e == nil {
		e = &verifC32Entry{}
		m.keys[k] = e
	}
	e.attempts = append(e.attempts, verifC32Attempt{tok: tok, meta: row})
}

func (e *verifC32Entry) take(tok AckBindToken) (verifC32Attempt, bool) {
	for i, a := range e.attempts {
		if a.tok == tok {
			e.attempts = append(e.attempts[:i:i], e.attempts[i+1:]...)
			return a, true
		}
	}
	return verifC32Attempt{}, false
}

func (m *verifC32Model) finish(row PendingRecvAck, tok AckBindToken) bool {
	if !verifC32ValidRow(row) || !tok.Valid() {
		return false
	}
	e := m.keys[verifC32KeyOf(row)]
	if e == nil {
		return false
	}
	a, ok := e.take(tok)
	if !ok {
		return false
	}
	e.committed = true
	e.meta = a.meta
	return true
}

func (m *verifC32Model) cancel(row PendingRecvAck, tok AckBindToken) (canceled, removed bool) {
	if !verifC32ValidRow(row) || !tok.Valid() {
		return false, false
	}
	k := verifC32KeyOf(row)
	e := m.keys[k]
	if e == nil {
		return false, false
	}
	if _, ok := e.take(tok); !ok {
		return false, false
	}
	if !e.committed && len(e.attempts) == 0 {
		delete(m.keys, k)
		return true, true
	}
	return true, false
}

// metaOK: is got an acceptable protocol-visible snapshot of entry e? A
// committed identity reports the metadata of its last successful finish; an
// identity that only has in-flight attempts reports one of those attempts.
func (e *verifC32Entry) metaOK(got PendingRecvAck) bool {
	if e.committed {
		return got == e.meta
	}
	for _, a := range e.attempts {
		if a.meta == got {
			return true
		}
	}
	return false
}

func (e *verifC32Entry) describe() string {
	var b strings.Builder
	if e.committed {
		fmt.Fprintf(&b, "committed%+v", e.meta)
	} else {
		b.WriteString("uncommitted")
	}
	for _, a := range e.attempts {
		fmt.Fprintf(&b, " attempt#%d%+v", a.tok.id, a.meta)
	}
	return b.String()
}

// expired: every delivery candidate (committed snapshot and in-flight
// attempts) is at or before the cutoff.
func (e *verifC32Entry) expired(cutoff int64) bool {
	if e.committed && e.meta.DeliveredAt > cutoff {
		return false
	}
	for _, a := range e.attempts {
		if a.meta.DeliveredAt > cutoff {
			return false
		}
	}
	return true
}

func verifC32TTLSeconds(ttl time.Duration) int64 {
	s := int64(ttl / time.Second)
	if ttl%time.Second != 0 {
		s++
	}
	return s
}

// verifC32RealKeys reads the identities the tracker really holds.
func verifC32RealKeys(tr *AckTracker) map[verifC32Key]bool {
	out := map[verifC32Key]bool{}
	for i := range tr.shards {
		sh := &tr.shards[i]
		sh.mu.Lock()
		for k := range sh.byMessage {
			out[verifC32Key{uid: k.uid, sid: k.sessionID, mid: k.messageID}] = true
		}
		sh.mu.Unlock()
	}
	return out
}

// verifC32CheckRemoved compares a list of removed snapshots with the model
// entries that had to be removed (exactly those, each once).
func verifC32CheckRemoved(what string, got []PendingRecvAck, want map[verifC32Key]*verifC32Entry) error {
	seen := map[verifC32Key]bool{}
	for _, p := range got {
		k := verifC32KeyOf(p)
		e, ok := want[k]
		if !ok {
			return fmt.Errorf("%s removed %v which must stay (or never existed); want %v", what, k, verifC32SortedKeys(want))
		}
		if seen[k] {
			return fmt.Errorf("%s returned %v twice", what, k)
		}
		seen[k] = true
		if !e.metaOK(p) {
			return fmt.Errorf("%s returned metadata %+v for %v, model has %s", what, p, k, e.describe())
		}
	}
	if len(seen) != len(want) {
		return fmt.Errorf("%s removed %d identities %v, want exactly %v", what, len(got), got, verifC32SortedKeys(want))
	}
	return nil
}

func verifC32SortedKeys[V any](m map[verifC32Key]V) []string {
	out := make([]string, 0, len(m))
	for k := range m {
		out = append(out, k.String())
	}
	sort.Strings(out)
	return out
}

// ---------------------------------------------------------------------------
// Generators
// ---------------------------------------------------------------------------

type verifC32Issued struct {
	row PendingRecvAck // the row as the caller passed it to the bind
	tok AckBindToken
}

type verifC32Universe struct {
	uids     []string
	sessions []uint64
	maxMsg   int
}

func (u verifC32Universe) row(t *rapid.T, now int64, allowInvalid bool) PendingRecvAck {
	p := PendingRecvAck{
		UID:         rapid.SampledFrom(u.uids).Draw(t, "uid"),
		SessionID:   rapid.SampledFrom(u.sessions).Draw(t, "sid"),
		MessageID:   uint64(rapid.IntRange(1, u.maxMsg).Draw(t, "mid")),
		MessageSeq:  uint64(rapid.IntRange(0, 5).Draw(t, "seq")),
		ChannelID:   rapid.SampledFrom([]string{"", "c1", "c2"}).Draw(t, "chan"),
		ChannelType: uint8(rapid.IntRange(1, 2).Draw(t, "ctype")),
	}
	// Real pushes leave DeliveredAt zero (the tracker stamps its clock); the
	// API also accepts an explicit delivery second, not later than the clock.
	if rapid.IntRange(0, 2).Draw(t, "explicitAt") == 0 {
		p.DeliveredAt = now - int64(rapid.IntRange(0, 6).Draw(t, "age"))
	}
	if allowInvalid {
		switch rapid.IntRange(0, 11).Draw(t, "invalid") {
		case 0:
			p.UID = ""
		case 1:
			p.SessionID = 0
		case 2:
			p.MessageID = 0
		}
	}
	return p
}

// ---------------------------------------------------------------------------
// Sequential state machine
// ---------------------------------------------------------------------------

func TestVerifC32Sequential(t *testing.T) {
	kit.Check(t, "C32", func(rt *rapid.T, k *kit.Case) {
		shardCount := rapid.SampledFrom([]int{1, 2, 4, 0, 70}).Draw(rt, "shards")
		max := rapid.SampledFrom([]int{0, 1, 2, 3}).Draw(rt, "maxPerSession")
		effShards := shardCount
		if effShards <= 0 {
			effShards = defaultAckTrackerShardCount
		}
		now := int64(rapid.IntRange(100, 1000).Draw(rt, "t0"))
		tr := NewAckTracker(AckTrackerOptions{ShardCount: shardCount, MaxPendingPerSession: max, Now: func() int64 { return now }})
		m := verifC32NewModel(max)
		u := verifC32Universe{
			uids: []string{"u1", "u2"},
			// 1 and 1+effShards share a shard; 2 and 3 usually do not.
			sessions: []uint64{1, 2, 3, uint64(1 + effShards)},
			maxMsg:   4,
		}
		var issued []verifC32Issued
		allTokens := map[AckBindToken]bool{}
		var log []string
		note := func(f string, a ...any) { log = append(log, fmt.Sprintf(f, a...)) }

		var (
			sawOverlap, sawCancelKeptCommitted, sawCancelRemoved, sawCancelKeptOther bool
			sawStaleToken, sawAckHit, sawAckMiss, sawLimit, sawReset                 bool
			sawExpireRemoved, sawExpireProtected, sawCloseSelective, sawBatchDup     bool
			sawFinishBatch, sawExpireBoundary                                        bool
		)

		fail := func(f string, a ...any) {
			rt.Helper()
			rt.Fatalf("%s\nhistory:\n  %s", fmt.Sprintf(f, a...), strings.Join(log, "\n  "))
		}

		recordToken := func(row PendingRecvAck, tok AckBindToken) {
			if !tok.Valid() {
				fail("accepted bind of %+v returned the zero token", row)
			}
			if allTokens[tok] {
				fail("bind token %d handed out twice", tok.id)
			}
			allTokens[tok] = true
			issued = append(issued, verifC32Issued{row: row, tok: tok})
		}

		// modelBind applies one bind attempt to the model given the real
		// outcome token, after checking the admission decision.
		checkBind := func(what string, row PendingRecvAck, gotBound bool, tok AckBindToken) (added bool) {
			wantBound, wantAdded := m.bindAllowed(row)
			if gotBound != wantBound {
				fail("%s(%+v) bound=%v, model says %v (session holds %d, limit %d)", what, row, gotBound, wantBound, m.sessionSize(row.UID, row.SessionID), max)
			}
			if !wantBound {
				if tok.Valid() {
					fail("%s(%+v) rejected but returned token %d", what, row, tok.id)
				}
				if verifC32ValidRow(row) {
					sawLimit = true
				}
				return false
			}
			if e := m.keys[verifC32KeyOf(row)]; e != nil {
				sawOverlap = true
			}
			recordToken(row, tok)
			m.addAttempt(row, now, tok)
			return wantAdded
		}

		pickIssued := func(t *rapid.T) (PendingRecvAck, AckBindToken, bool) {
			if len(issued) == 0 {
				t.Skip("no token issued yet")
			}
			// prefer tokens that are still in flight
			var live []verifC32Issued
			for _, is := range issued {
				if e := m.keys[verifC32KeyOf(is.row)]; e != nil {
					for _, a := range e.attempts {
						if a.tok == is.tok {
							live = append(live, is)
						}
					}
				}
			}
			mode := rapid.IntRange(0, 9).Draw(t, "tokMode")
			switch {
			case mode <= 5 && len(live) > 0:
				is := rapid.SampledFrom(live).Draw(t, "liveTok")
				return is.row, is.tok, true
			case mode <= 7:
				is := rapid.SampledFrom(issued).Draw(t, "anyTok")
				return is.row, is.tok, false
			case mode == 8:
				// a real token presented for a different identity
				is := rapid.SampledFrom(issued).Draw(t, "anyTok")
				other := u.row(t, now, true)
				return other, is.tok, false
			default:
				is := rapid.SampledFrom(issued).Draw(t, "anyTok")
				return is.row, AckBindToken{id: uint64(rapid.IntRange(0, 3).Draw(t, "forged")) * 1_000_003}, false
			}
		}

		actions := map[string]func(*rapid.T){
			"bindResult": func(t *rapid.T) {
				row := u.row(t, now, true)
				res := tr.BindResult(row)
				note("BindResult(%+v) = %+v", row, res)
				added := checkBind("BindResult", row, res.Bound, res.Token)
				if res.Added != added {
					fail("BindResult(%+v).Added=%v, model says %v", row, res.Added, added)
				}
				if res.PendingCount != len(m.keys) {
					fail("BindResult(%+v).PendingCount=%d, model has %d identities", row, res.PendingCount, len(m.keys))
				}
			},
			"bindCompat": func(t *rapid.T) {
				row := u.row(t, now, true)
				ok := tr.Bind(row)
				note("Bind(%+v) = %v", row, ok)
				wantBound, _ := m.bindAllowed(row)
				if ok != wantBound {
					fail("Bind(%+v)=%v, model says %v", row, ok, wantBound)
				}
				if !wantBound {
					sawLimit = sawLimit || verifC32ValidRow(row)
					return
				}
				if m.keys[verifC32KeyOf(row)] != nil {
					sawOverlap = true
				}
				// compatibility bind = reserve + immediate successful finish;
				// its token is never exposed.
				tok := AckBindToken{id: ^uint64(0)}
				m.addAttempt(row, now, tok)
				m.finish(row, tok)
			},
			"bindBatch": func(t *rapid.T) {
				n := rapid.IntRange(0, 6).Draw(t, "n")
				big := rapid.IntRange(0, 39).Draw(t, "big") == 0
				if big {
					n = rapid.IntRange(129, 150).Draw(t, "nBig")
				}
				rows := make([]PendingRecvAck, n)
				for i := range rows {
					if i > 0 && rapid.IntRange(0, 3).Draw(t, "dup") == 0 {
						rows[i] = rows[rapid.IntRange(0, i-1).Draw(t, "dupOf")]
						sawBatchDup = true
						continue
					}
					rows[i] = u.row(t, now, true)
				}
				res := tr.BindBatch(rows)
				note("BindBatch(%d rows %+v) = %+v", n, verifC32Trunc(rows), verifC32TruncTok(res.Tokens))
				if len(res.Tokens) != n {
					fail("BindBatch returned %d tokens for %d rows", len(res.Tokens), n)
				}
				bound, added := 0, 0
				for i, row := range rows {
					got := res.Tokens[i].Valid()
					if checkBind(fmt.Sprintf("BindBatch[%d]", i), row, got, res.Tokens[i]) {
						added++
					}
					if got {
						bound++
					}
				}
				if res.Bound != bound || res.Added != added || res.PendingCount != len(m.keys) {
					fail("BindBatch result Bound=%d Added=%d PendingCount=%d, model Bound=%d Added=%d count=%d", res.Bound, res.Added, res.PendingCount, bound, added, len(m.keys))
				}
			},
			"finish": func(t *rapid.T) {
				row, tok, live := pickIssued(t)
				got := tr.FinishBind(row, tok)
				note("FinishBind(%v, #%d) = %v", verifC32KeyOf(row), tok.id, got)
				want := m.finish(row, tok)
				if got != want {
					fail("FinishBind(%v, #%d)=%v, model says %v", verifC32KeyOf(row), tok.id, got, want)
				}
				if !live && !want {
					sawStaleToken = true
				}
			},
			"finishBatch": func(t *rapid.T) {
				if len(issued) == 0 {
					t.Skip("no token issued yet")
				}
				n := rapid.IntRange(1, 6).Draw(t, "n")
				rows := make([]PendingRecvAck, n)
				toks := make([]AckBindToken, n)
				for i := range rows {
					// newest tokens are the likeliest to be in flight
					lo := len(issued) - 8
					if lo < 0 || rapid.IntRange(0, 3).Draw(t, "old") == 0 {
						lo = 0
					}
					is := issued[rapid.IntRange(lo, len(issued)-1).Draw(t, "pick")]
					rows[i], toks[i] = is.row, is.tok
					switch rapid.IntRange(0, 9).Draw(t, "spoil") {
					case 0:
						toks[i] = AckBindToken{}
					case 1:
						rows[i] = u.row(t, now, true)
					}
				}
				if rapid.IntRange(0, 5).Draw(t, "shortTokens") == 0 {
					toks = toks[:rapid.IntRange(0, n).Draw(t, "tokLen")]
				}
				idx := rapid.SliceOfN(rapid.IntRange(-1, n), 0, n+2).Draw(t, "indexes")
				got := tr.FinishBindBatch(rows, toks, idx)
				note("FinishBindBatch(%d rows, %d tokens, idx=%v) = %d", n, len(toks), idx, got)
				want := 0
				for _, i := range idx {
					if i < 0 || i >= len(rows) || i >= len(toks) {
						continue
					}
					if m.finish(rows[i], toks[i]) {
						want++
					}
				}
				if got != want {
					fail("FinishBindBatch finished %d, model says %d", got, want)
				}
				sawFinishBatch = sawFinishBatch || want > 0
			},
			"cancel": func(t *rapid.T) {
				row, tok, live := pickIssued(t)
				k := verifC32KeyOf(row)
				wasCommitted := false
				others := 0
				if e := m.keys[k]; e != nil {
					wasCommitted = e.committed
					others = len(e.attempts) - 1
				}
				res := tr.CancelBind(row, tok)
				note("CancelBind(%v, #%d) = %+v", k, tok.id, res)
				canceled, removed := m.cancel(row, tok)
				if res.Canceled != canceled || res.Removed != removed {
					fail("CancelBind(%v, #%d) = canceled %v removed %v, model says canceled %v removed %v", k, tok.id, res.Canceled, res.Removed, canceled, removed)
				}
				if res.PendingCount != len(m.keys) {
					fail("CancelBind(%v).PendingCount=%d, model has %d", k, res.PendingCount, len(m.keys))
				}
				switch {
				case canceled && removed:
					sawCancelRemoved = true
				case canceled && wasCommitted:
					sawCancelKeptCommitted = true
				case canceled && others > 0:
					sawCancelKeptOther = true
				case !live && !canceled:
					sawStaleToken = true
				}
			},
			"ack": func(t *rapid.T) {
				var a Recvack
				keys := verifC32SortedModelKeys(m)
				if len(keys) > 0 && rapid.IntRange(0, 2).Draw(t, "hit") > 0 {
					k := rapid.SampledFrom(keys).Draw(t, "key")
					a = Recvack{UID: k.uid, SessionID: k.sid, MessageID: k.mid}
					switch rapid.IntRange(0, 7).Draw(t, "skew") {
					case 0: // right message, wrong session
						a.SessionID = rapid.SampledFrom(u.sessions).Draw(t, "otherSid")
					case 1:
						a.UID = rapid.SampledFrom(u.uids).Draw(t, "otherUID")
					}
				} else {
					r := u.row(t, now, true)
					a = Recvack{UID: r.UID, SessionID: r.SessionID, MessageID: r.MessageID}
				}
				a.MessageSeq = uint64(rapid.IntRange(0, 5).Draw(t, "ackSeq"))
				got, ok := tr.Ack(a)
				note("Ack(%+v) = %+v, %v", a, got, ok)
				k := verifC32Key{uid: a.UID, sid: a.SessionID, mid: a.MessageID}
				e := m.keys[k]
				valid := a.UID != "" && a.SessionID != 0 && a.MessageID != 0
				if !valid || e == nil {
					if ok {
						fail("Ack(%+v) reported a pending delivery %+v, model has none", a, got)
					}
					if got != (PendingRecvAck{}) {
						fail("Ack(%+v) miss returned non-zero %+v", a, got)
					}
					sawAckMiss = true
					return
				}
				if !ok {
					fail("Ack(%+v) missed an outstanding delivery: %s", a, e.describe())
				}
				if verifC32KeyOf(got) != k || !e.metaOK(got) {
					fail("Ack(%+v) returned %+v, model has %s", a, got, e.describe())
				}
				delete(m.keys, k)
				sawAckHit = true
			},
			"sessionClosed": func(t *rapid.T) {
				uid := rapid.SampledFrom(append([]string{""}, u.uids...)).Draw(t, "uid")
				sid := rapid.SampledFrom(append([]uint64{0}, u.sessions...)).Draw(t, "sid")
				got := tr.SessionClosed(uid, sid)
				note("SessionClosed(%q,%d) = %+v", uid, sid, got)
				want := map[verifC32Key]*verifC32Entry{}
				if uid != "" && sid != 0 {
					for k, e := range m.keys {
						if k.uid == uid && k.sid == sid {
							want[k] = e
						}
					}
				}
				if err := verifC32CheckRemoved(fmt.Sprintf("SessionClosed(%q,%d)", uid, sid), got, want); err != nil {
					fail("%v", err)
				}
				for k := range want {
					delete(m.keys, k)
				}
				if len(want) > 0 && len(m.keys) > 0 {
					sawCloseSelective = true
				}
			},
			"tick": func(t *rapid.T) {
				now += int64(rapid.IntRange(0, 4).Draw(t, "dt"))
				note("clock = %d", now)
			},
			"expire": func(t *rapid.T) {
				ttl := rapid.SampledFrom([]time.Duration{
					0, -time.Second, time.Nanosecond, 500 * time.Millisecond, time.Second, 1500 * time.Millisecond,
					2 * time.Second, 3 * time.Second, 5 * time.Second, 8 * time.Second,
				}).Draw(t, "ttl")
				got := tr.Expire(ttl)
				note("Expire(%v) at %d = %+v", ttl, now, got)
				want := map[verifC32Key]*verifC32Entry{}
				if ttl > 0 {
					cutoff := now - verifC32TTLSeconds(ttl)
					for k, e := range m.keys {
						if e.expired(cutoff) {
							want[k] = e
							if e.committed && e.meta.DeliveredAt == cutoff || !e.committed && len(e.attempts) > 0 && e.attempts[0].meta.DeliveredAt == cutoff {
								sawExpireBoundary = true
							}
						} else if e.committed && e.meta.DeliveredAt <= cutoff {
							sawExpireProtected = true // only a fresher in-flight attempt keeps it
						}
					}
				}
				if err := verifC32CheckRemoved(fmt.Sprintf("Expire(%v) at clock %d", ttl, now), got, want); err != nil {
					fail("%v", err)
				}
				for k := range want {
					delete(m.keys, k)
				}
				sawExpireRemoved = sawExpireRemoved || len(want) > 0
			},
			"reset": func(t *rapid.T) {
				if rapid.IntRange(0, 11).Draw(t, "really") != 0 {
					t.Skip("reset kept rare")
				}
				tr.Reset()
				note("Reset()")
				m.keys = map[verifC32Key]*verifC32Entry{}
				sawReset = true
			},
			"": func(t *rapid.T) {
				if got := tr.PendingCount(); got != len(m.keys) {
					fail("PendingCount()=%d but %d distinct deliveries are outstanding: %v", got, len(m.keys), verifC32SortedKeys(m.keys))
				}
				real := verifC32RealKeys(tr)
				for k := range m.keys {
					if !real[k] {
						fail("outstanding delivery %v is missing from the tracker", k)
					}
				}
				for k := range real {
					if m.keys[k] == nil {
						fail("tracker holds %v which is not outstanding", k)
					}
				}
			},
		}
		rt.Repeat(actions)

		// Drain through the public API: what the model says is outstanding
		// must be exactly what acks and session closes still find.
		sessions := map[[2]string]bool{}
		for _, mk := range verifC32SortedModelKeys(m) {
			sk := [2]string{mk.uid, fmt.Sprint(mk.sid)}
			if sessions[sk] {
				continue
			}
			sessions[sk] = true
			if mk.sid%2 == 0 {
				want := map[verifC32Key]*verifC32Entry{}
				for k2, e := range m.keys {
					if k2.uid == mk.uid && k2.sid == mk.sid {
						want[k2] = e
					}
				}
				got := tr.SessionClosed(mk.uid, mk.sid)
				note("drain SessionClosed(%q,%d) = %+v", mk.uid, mk.sid, got)
				if err := verifC32CheckRemoved("drain SessionClosed", got, want); err != nil {
					fail("%v", err)
				}
				for k2 := range want {
					delete(m.keys, k2)
				}
			}
		}
		for _, mk := range verifC32SortedModelKeys(m) {
			got, ok := tr.Ack(Recvack{UID: mk.uid, SessionID: mk.sid, MessageID: mk.mid})
			note("drain Ack(%v) = %+v, %v", mk, got, ok)
			if !ok || !m.keys[mk].metaOK(got) {
				fail("drain Ack(%v) = %+v, %v; model has %s", mk, got, ok, m.keys[mk].describe())
			}
			delete(m.keys, mk)
			if tr.PendingCount() != len(m.keys) {
				fail("drain: PendingCount()=%d, want %d", tr.PendingCount(), len(m.keys))
			}
		}
		if tr.PendingCount() != 0 || len(verifC32RealKeys(tr)) != 0 {
			fail("after draining everything PendingCount()=%d, tracker still holds %v", tr.PendingCount(), verifC32SortedKeys(verifC32RealKeys(tr)))
		}

		k.Key(shardCount, max, strings.Join(log, "|"))
		k.SetNonTrivial(sawOverlap)
		k.LabelIf(sawOverlap, "overlapping bind attempts on one key")
		k.LabelIf(sawCancelKeptCommitted, "cancel of failed re-delivery kept committed key")
		k.LabelIf(sawCancelKeptOther, "cancel kept key alive through another in-flight attempt")
		k.LabelIf(sawCancelRemoved, "cancel removed last reservation")
		k.LabelIf(sawStaleToken, "stale/forged/misaddressed token was a no-op")
		k.LabelIf(sawAckHit, "ack hit")
		k.LabelIf(sawAckMiss, "ack miss (unknown / wrong session / invalid)")
		k.LabelIf(sawLimit, "per-session limit rejected a bind")
		k.LabelIf(sawCloseSelective, "session close removed entries while others stayed")
		k.LabelIf(sawExpireRemoved, "expiry removed >=1")
		k.LabelIf(sawExpireBoundary, "expiry exactly at cutoff")
		k.LabelIf(sawExpireProtected, "expiry kept stale committed key protected by fresh attempt")
		k.LabelIf(sawBatchDup, "batch bind with duplicates")
		k.LabelIf(sawFinishBatch, "batch finish committed >=1")
		k.LabelIf(sawReset, "reset")
		k.Sample(func() any { return verifC32Tail(log, 25) })
	})
}

func verifC32SortedModelKeys(m *verifC32Model) []verifC32Key {
	out := make([]verifC32Key, 0, len(m.keys))
	for k := range m.keys {
		out = append(out, k)
	}
	sort.Slice(out, func(i, j int) bool {
		a, b := out[i], out[j]
		if a.uid != b.uid {
			return a.uid < b.uid
		}
		if a.sid != b.sid {
			return a.sid < b.sid
		}
		return a.mid < b.mid
	})
	return out
}

func verifC32Trunc(rows []PendingRecvAck) []PendingRecvAck {
	if len(rows) > 8 {
		return rows[:8]
	}
	return rows
}

func verifC32TruncTok(toks []AckBindToken) []AckBindToken {
	if len(toks) > 8 {
		return toks[:8]
	}
	return toks
}

func verifC32Tail(log []string, n int) []string {
	if len(log) > n {
		return log[len(log)-n:]
	}
	return log
}
