package online

import (
	"errors"
	"fmt"
	"sort"
	"strings"
	"testing"

	"pgregory.net/rapid"
	"verif.local/kit"
)

// Owner-side analogue of the presence fence (FLOW.md "Lifecycle" / "Touch
// Batching"): a session removed by MarkClosingAndUnregister never reappears
// through a late MarkTouched or a RequeueTouched of its old route, also when
// the session id is reused by a newer connection; drains hand out each dirty
// active route once; lookups equal a plain map model.

type verifC33RegSession struct {
	route OwnerRoute
	state RouteState
	dirty bool
}

func TestVerifC33Registry(t *testing.T) {
	kit.Check(t, "C33", func(rt *rapid.T, k *kit.Case) {
		shards := rapid.SampledFrom([]int{1, 2, 4, 0}).Draw(rt, "shards")
		reg := NewRegistry(RegistryOptions{ShardCount: shards})
		model := map[uint64]*verifC33RegSession{}
		var history []OwnerRoute // every route ever registered or drained (requeue candidates)
		closed := map[uint64]OwnerRoute{}
		var log []string
		note := func(f string, a ...any) { log = append(log, fmt.Sprintf(f, a...)) }
		fail := func(f string, a ...any) {
			rt.Helper()
			rt.Fatalf("%s\nhistory:\n  %s", fmt.Sprintf(f, a...), strings.Join(log, "\n  "))
		}
		clock := int64(1000)
		seq := uint64(0)
		var sawLateTouch, sawStaleRequeue, sawReuse, sawPartialDrain, sawRequeueHit bool

		sid := func(t *rapid.T) uint64 { return uint64(rapid.IntRange(0, 5).Draw(t, "sid")) }

		actions := map[string]func(*rapid.T){
			"registerPending": func(t *rapid.T) {
				seq++
				r := OwnerRoute{UID: rapid.SampledFrom([]string{"a", "b", ""}).Draw(t, "uid"), SessionID: sid(t), OwnerNodeID: 1, OwnerBootID: 1,
					OwnerSeq: seq, DeviceID: "d", ConnectedUnix: clock - int64(rapid.IntRange(0, 3).Draw(t, "age"))}
				if rapid.Bool().Draw(t, "withActivity") {
					r.LastActivityUnix = clock
				}
				err := reg.RegisterPending(LocalSession{Route: r, State: RouteStateActive})
				note("RegisterPending(%+v) = %v", r, err)
				if r.UID == "" || r.SessionID == 0 {
					if !errors.Is(err, ErrInvalidConnection) {
						fail("RegisterPending(invalid) = %v", err)
					}
					return
				}
				if err != nil {
					fail("RegisterPending = %v", err)
				}
				if r.LastActivityUnix == 0 {
					r.LastActivityUnix = r.ConnectedUnix
				}
				if _, was := closed[r.SessionID]; was {
					sawReuse = true
				}
				model[r.SessionID] = &verifC33RegSession{route: r, state: RouteStatePending}
				history = append(history, r)
				// the usual flow activates the session right after authority registration
				if rapid.IntRange(0, 2).Draw(t, "activate") > 0 {
					if err := reg.MarkActive(r.SessionID); err != nil {
						fail("MarkActive(%d) right after RegisterPending = %v", r.SessionID, err)
					}
					note("MarkActive(%d)", r.SessionID)
					model[r.SessionID].state = RouteStateActive
				}
			},
			"markActive": func(t *rapid.T) {
				id := sid(t)
				err := reg.MarkActive(id)
				note("MarkActive(%d) = %v", id, err)
				s := model[id]
				if s == nil {
					if !errors.Is(err, ErrConnectionNotFound) {
						fail("MarkActive(missing %d) = %v", id, err)
					}
					return
				}
				if err != nil {
					fail("MarkActive(%d) = %v", id, err)
				}
				s.state = RouteStateActive
			},
			"close": func(t *rapid.T) {
				id := sid(t)
				got, ok := reg.MarkClosingAndUnregister(id)
				note("MarkClosingAndUnregister(%d) = %+v, %v", id, got, ok)
				s := model[id]
				if (s != nil) != ok {
					fail("MarkClosingAndUnregister(%d) ok=%v, model registered=%v", id, ok, s != nil)
				}
				if s != nil {
					if got != s.route {
						fail("MarkClosingAndUnregister(%d) = %+v, model %+v", id, got, s.route)
					}
					closed[id] = s.route
					delete(model, id)
				}
			},
			"touch": func(t *rapid.T) {
				id := sid(t)
				at := clock + int64(rapid.IntRange(-3, 3).Draw(t, "dAt"))
				got, ok := reg.MarkTouched(id, at)
				note("MarkTouched(%d,%d) = %+v, %v", id, at, got, ok)
				s := model[id]
				want := s != nil && s.state == RouteStateActive
				if ok != want {
					fail("MarkTouched(%d) ok=%v, model active=%v", id, ok, want)
				}
				if !want {
					if _, was := closed[id]; was && s == nil {
						sawLateTouch = true
					}
					return
				}
				if at > s.route.LastActivityUnix {
					s.route.LastActivityUnix = at
				}
				s.dirty = true
				if got != s.route {
					fail("MarkTouched(%d) = %+v, model %+v", id, got, s.route)
				}
			},
			"drain": func(t *rapid.T) {
				limit := rapid.SampledFrom([]int{-1, 0, 1, 1, 2, 2, 5}).Draw(t, "limit")
				got := reg.DrainTouched(limit)
				note("DrainTouched(%d) = %+v", limit, got)
				dirty := 0
				for _, s := range model {
					if s.dirty {
						dirty++
					}
				}
				want := dirty
				if limit < want {
					want = limit
				}
				if want < 0 {
					want = 0
				}
				if len(got) != want {
					fail("DrainTouched(%d) returned %d routes, %d dirty active routes exist", limit, len(got), dirty)
				}
				for _, r := range got {
					s := model[r.SessionID]
					if s == nil || !s.dirty || s.state != RouteStateActive || s.route != r {
						fail("DrainTouched returned %+v which is not a dirty active route (closed, superseded, drained twice or stale)", r)
					}
					s.dirty = false
					history = append(history, r)
				}
				sawPartialDrain = sawPartialDrain || (want > 0 && want < dirty)
			},
			"requeue": func(t *rapid.T) {
				if len(history) == 0 {
					t.Skip("nothing to requeue")
				}
				n := rapid.IntRange(1, 3).Draw(t, "n")
				routes := make([]OwnerRoute, n)
				for i := range routes {
					routes[i] = history[rapid.IntRange(0, len(history)-1).Draw(t, "pick")]
					routes[i].LastActivityUnix += int64(rapid.IntRange(0, 2).Draw(t, "later"))
				}
				reg.RequeueTouched(routes)
				note("RequeueTouched(%+v)", routes)
				for _, r := range routes {
					s := model[r.SessionID]
					same := s != nil && s.route.UID == r.UID && s.route.OwnerNodeID == r.OwnerNodeID && s.route.OwnerBootID == r.OwnerBootID && s.route.OwnerSeq == r.OwnerSeq
					if s != nil && s.state == RouteStateActive && same {
						if r.LastActivityUnix > s.route.LastActivityUnix {
							s.route.LastActivityUnix = r.LastActivityUnix
						}
						s.dirty = true
						sawRequeueHit = true
					} else {
						sawStaleRequeue = true
					}
				}
			},
			"tick": func(t *rapid.T) { clock += int64(rapid.IntRange(1, 3).Draw(t, "dt")) },
			"": func(t *rapid.T) {
				pending, active, dirty := 0, 0, 0
				for id := uint64(0); id <= 6; id++ {
					s := model[id]
					got, ok := reg.Route(id)
					ls, ok2 := reg.LocalSession(id)
					if ok != (s != nil) || ok2 != ok {
						fail("Route(%d) ok=%v LocalSession ok=%v, model registered=%v", id, ok, ok2, s != nil)
					}
					if s == nil {
						continue
					}
					if got != s.route || ls.Route != s.route || ls.State != s.state {
						fail("session %d: Route=%+v LocalSession=%+v/%d, model %+v/%d", id, got, ls.Route, ls.State, s.route, s.state)
					}
					switch s.state {
					case RouteStatePending:
						pending++
					case RouteStateActive:
						active++
					}
					if s.dirty {
						dirty++
					}
				}
				snap := reg.Snapshot()
				if snap.Pending != pending || snap.Active != active || snap.TouchedDirty != dirty {
					fail("Snapshot %+v, model pending=%d active=%d dirty=%d", snap, pending, active, dirty)
				}
				for _, uid := range []string{"a", "b"} {
					var want []uint64
					for id, s := range model {
						if s.route.UID == uid {
							want = append(want, id)
						}
					}
					var have []uint64
					for _, ls := range reg.LocalSessionsByUID(uid) {
						have = append(have, ls.Route.SessionID)
					}
					sort.Slice(want, func(i, j int) bool { return want[i] < want[j] })
					sort.Slice(have, func(i, j int) bool { return have[i] < have[j] })
					if fmt.Sprint(want) != fmt.Sprint(have) {
						fail("LocalSessionsByUID(%q) sessions %v, model %v", uid, have, want)
					}
				}
				if n := len(reg.LocalSessions()); n != len(model) {
					fail("LocalSessions() has %d sessions, model %d", n, len(model))
				}
			},
		}
		actions["touch2"] = actions["touch"]
		actions["touch3"] = actions["touch"]
		rt.Repeat(actions)
		// final full drain: every dirty active route exactly once, nothing else
		dirty := 0
		for _, s := range model {
			if s.dirty {
				dirty++
			}
		}
		got := reg.DrainTouched(100)
		if len(got) != dirty {
			fail("final DrainTouched returned %d routes, %d dirty", len(got), dirty)
		}
		for _, r := range got {
			if s := model[r.SessionID]; s == nil || !s.dirty || s.route != r {
				fail("final DrainTouched returned %+v which is not a current dirty route", r)
			} else {
				s.dirty = false
			}
		}
		if again := reg.DrainTouched(100); len(again) != 0 {
			fail("second full drain returned %+v", again)
		}

		k.Key("registry", shards, strings.Join(log, "|"))
		k.SetNonTrivial(sawLateTouch || sawStaleRequeue)
		k.LabelIf(sawLateTouch, "registry: touch after close ignored")
		k.LabelIf(sawStaleRequeue, "registry: requeue of closed/superseded/pending route skipped")
		k.LabelIf(sawRequeueHit, "registry: requeue re-marked current route")
		k.LabelIf(sawReuse, "registry: session id reused after close")
		k.LabelIf(sawPartialDrain, "registry: drain limited below dirty count")
		k.Sample(func() any {
			if len(log) > 20 {
				return log[len(log)-20:]
			}
			return log
		})
	})
}
