package channelappend

// C29 — send results are aligned, ordered and idempotent.
//
// The harness draws a workload with rapid (callers, batches, duplicate keys,
// conflicting key reuse, append latencies and failures, "committed but
// reported failed" appends, backpressure limits, an optional early Stop), runs
// the REAL Group + Router against a fake Appender / IdempotencyStore that
// behave like the durable channel store (per-channel sequence in call order,
// one row per (sender, client number), whole-batch rejection on key conflict),
// records every result and every request that reached the Appender port, and
// judges the recorded history after every caller returned and Stop completed.

import (
	"context"
	"encoding/json"
	"errors"
	"fmt"
	"hash/fnv"
	"runtime"
	"sort"
	"strings"
	"sync"
	"sync/atomic"
	"testing"
	"time"

	runtimechannelid "github.com/WuKongIM/WuKongIM/pkg/protocol/channelid"
	"pgregory.net/rapid"
	"verif.local/kit"
)

const (
	verifC29LocalNode   = uint64(7)
	verifC29ChannelType = uint8(2)
)

// ---- workload description (drawn by rapid, JSON-serialisable for replay) ----

const (
	verifC29KindKeyed = iota
	verifC29KindUnkeyed
	verifC29KindAuthFail
	verifC29KindEmptyPayload
	verifC29KindNoPersist
	verifC29KindDenied // the Authorizer port refuses the send
)

type verifC29Item struct {
	ID      int    `json:"id"`
	Kind    int    `json:"kind"`
	Ch      int    `json:"ch"`
	From    string `json:"from"`
	CNo     string `json:"cno"`
	Payload string `json:"payload"`
	// Sync marks a persistent sync_once send: the client names channel Ch, the
	// durable message lives on the command channel of Ch (the Router routes it
	// there and prepare rewrites the command).
	Sync bool `json:"sync,omitempty"`
	// AuthUS is the latency of the Authorizer port for this item (prepare runs
	// outside the writer lock; a slow prepare is part of the schedule space).
	AuthUS int `json:"auth_us,omitempty"`
}

// chanName is the canonical channel the durable message of the item lives on.
func (it verifC29Item) chanName() string {
	return verifC29StoreChannel(it.Ch, it.Sync)
}

func verifC29StoreChannel(ch int, cmd bool) string {
	if cmd {
		return runtimechannelid.ToCommandChannel(verifC29ChannelName(ch))
	}
	return verifC29ChannelName(ch)
}

const (
	verifC29ModeRouter = iota
	verifC29ModeLocal
	// verifC29ModeFence: the caller switches the durable write fence of one
	// canonical channel on or off (environment state shared by the authority
	// resolver and the Appender, as both derive it from the channel metadata).
	verifC29ModeFence
)

type verifC29Call struct {
	Mode    int              `json:"mode"`
	Ch      int              `json:"ch"`            // local / fence mode: the one target channel
	Cmd     bool             `json:"cmd,omitempty"` // local / fence mode: the target is the command channel of Ch
	FenceOn bool             `json:"fence_on,omitempty"`
	Subs    [][]verifC29Item `json:"subs"`
	GapsUS  []int            `json:"gaps_us,omitempty"` // local mode: pause before the i-th pipelined submission
	PauseUS int              `json:"pause_us"`
	Retry   bool             `json:"retry,omitempty"` // the call re-sends the caller's previous send call
}

type verifC29Caller struct {
	Calls []verifC29Call `json:"calls"`
}

const (
	verifC29BehOK = iota
	verifC29BehFailBefore
	verifC29BehCommitThenFail
	verifC29BehRouteErr
	verifC29BehItemErr
	verifC29BehShort
	verifC29BehCommitThenRouteErr
)

type verifC29Beh struct {
	Kind     int    `json:"kind"`
	BeforeUS int    `json:"before_us"`
	AfterUS  int    `json:"after_us"`
	Mask     uint32 `json:"mask"`
}

type verifC29Params struct {
	Channels    int              `json:"channels"`
	Shards      int              `json:"shards"`
	AdvancePool int              `json:"advance_pool"`
	EffectPool  int              `json:"effect_pool"`
	Watermark   int              `json:"watermark"`
	Admission   int              `json:"admission"`
	CoalesceUS  int              `json:"coalesce_us"` // -1 disabled, 0 default
	PostCommit  bool             `json:"post_commit"`
	PostSlowUS  int              `json:"post_slow_us"`
	HandoffCap  int              `json:"handoff_cap"`
	Fenced      []bool           `json:"fenced"`      // consumed per resolve
	LookupErrs  []bool           `json:"lookup_errs"` // consumed per lookup
	LookupUS    []int            `json:"lookup_us,omitempty"` // latency of the idempotency port, consumed per lookup
	StopAt      int              `json:"stop_at"`     // -1: no early stop; else before the n-th call
	StopShort   bool             `json:"stop_short"`  // early stop uses an already expired deadline
	Callers     []verifC29Caller `json:"callers"`
	Behs        [][]verifC29Beh  `json:"behs"` // per channel, consumed per AppendBatch call
}

func (p verifC29Params) limited() bool {
	return p.Watermark > 0 || p.Admission > 0 || p.HandoffCap > 0
}

func verifC29ChannelName(i int) string { return fmt.Sprintf("g%d", i) }

// verifC29Gen draws a workload. stopBias raises the share of cases with an
// early Stop (used by C41; that variant draws no sync_once sends and no write
// fences so that the C41 oracle keeps reading plain channel names).
func verifC29Gen(rt *rapid.T, stopBias bool) verifC29Params {
	return verifC29GenShape(rt, stopBias, false)
}

// verifC29GenShape: forceBurst draws only the pipelined-burst shape.
func verifC29GenShape(rt *rapid.T, stopBias bool, forceBurst bool) verifC29Params {
	p := verifC29Params{}
	// clean: no injected fault, no conflicting key reuse, default limits, no
	// early stop -- the cases in which every valid send must succeed
	clean := rapid.IntRange(0, 3).Draw(rt, "clean") == 0
	// durable write fences switched by the callers between their sends; half of
	// these cases are otherwise undisturbed so that "an acknowledged send retried
	// behind a fence returns the original" can be judged
	fenceCalls := !stopBias && rapid.IntRange(0, 2).Draw(rt, "fenceCalls") == 0
	if fenceCalls && rapid.Bool().Draw(rt, "fenceClean") {
		clean = true
	}
	// burst: few channels, pipelined SubmitLocal submissions with small gaps,
	// slow prepare ports and slow appends -- submissions arrive while the
	// writer is preparing an earlier batch and an append is in flight
	burst := rapid.IntRange(0, 3).Draw(rt, "burst") == 0 || forceBurst
	p.Channels = rapid.IntRange(1, 4).Draw(rt, "channels")
	if burst && p.Channels > 1 {
		p.Channels = 1 + p.Channels/4 // mostly one channel
	}
	p.Shards = rapid.IntRange(1, 3).Draw(rt, "shards")
	p.AdvancePool = rapid.IntRange(1, 4).Draw(rt, "advancePool")
	if burst && p.AdvancePool == 1 && rapid.IntRange(0, 3).Draw(rt, "burstPool") > 0 {
		p.AdvancePool = 2
	}
	p.EffectPool = rapid.IntRange(1, 4).Draw(rt, "effectPool")
	limits := rapid.IntRange(0, 5).Draw(rt, "limits")
	if clean {
		limits = 5
	}
	switch limits {
	case 0:
		p.Watermark = rapid.IntRange(1, 6).Draw(rt, "watermark")
	case 1:
		p.Admission = rapid.IntRange(1, 3).Draw(rt, "admission")
	}
	coalesce := rapid.IntRange(0, 3).Draw(rt, "coalesce")
	if burst && coalesce > 1 && rapid.Bool().Draw(rt, "burstNoCoalesce") {
		coalesce = 0
	}
	switch coalesce {
	case 0:
		p.CoalesceUS = -1
	case 1:
		p.CoalesceUS = rapid.IntRange(20, 400).Draw(rt, "coalesceUS")
	}
	p.PostCommit = rapid.IntRange(0, 2).Draw(rt, "postCommit") > 0
	if p.PostCommit {
		if rapid.IntRange(0, 2).Draw(rt, "postSlow") == 0 {
			p.PostSlowUS = rapid.IntRange(1, 300).Draw(rt, "postSlowUS")
		}
		if !clean && rapid.IntRange(0, 5).Draw(rt, "handoff") == 0 {
			p.HandoffCap = rapid.IntRange(1, 4).Draw(rt, "handoffCap")
		}
	}
	fencedMode := rapid.IntRange(0, 3).Draw(rt, "fencedMode")
	nf := 0
	if fencedMode == 0 {
		nf = 16
	}
	for i := 0; i < nf; i++ {
		p.Fenced = append(p.Fenced, rapid.Bool().Draw(rt, "fenced"))
	}
	if !clean && rapid.IntRange(0, 6).Draw(rt, "lookupErrMode") == 0 {
		for i := 0; i < 12; i++ {
			p.LookupErrs = append(p.LookupErrs, rapid.IntRange(0, 3).Draw(rt, "lookupErr") == 0)
		}
	}
	// slow ports on the prepare path (Authorizer per item, idempotency lookup per call)
	slowPrepare := burst || rapid.IntRange(0, 2).Draw(rt, "slowPrepare") == 0
	authPct := 0
	if slowPrepare {
		authPct = rapid.SampledFrom([]int{15, 35, 60}).Draw(rt, "authPct")
		if burst {
			authPct += 25
		}
		for i := 0; i < 16; i++ {
			us := 0
			if rapid.IntRange(0, 2).Draw(rt, "lookupSlow") == 0 {
				us = rapid.IntRange(30, 600).Draw(rt, "lookupUS")
			}
			p.LookupUS = append(p.LookupUS, us)
		}
	}
	// share of persistent sync_once sends (stored on the command channel)
	syncPct := rapid.SampledFrom([]int{0, 0, 25, 60}).Draw(rt, "syncPct")
	if fenceCalls && syncPct == 0 {
		syncPct = rapid.SampledFrom([]int{0, 40, 100}).Draw(rt, "syncPctFence")
	}
	if stopBias {
		syncPct = 0
	}

	// idempotency-key space: small => many retries / conflicts
	users := rapid.IntRange(1, 3).Draw(rt, "users")
	keySpace := rapid.SampledFrom([]int{2, 4, 8, 64}).Draw(rt, "keySpace")
	if burst && keySpace < 8 {
		keySpace = 64 // mostly fresh sends: the order clause speaks about those
	}
	conflictPct := rapid.SampledFrom([]int{0, 0, 10, 30}).Draw(rt, "conflictPct")
	if clean {
		conflictPct = 0
	}
	invalidPct := rapid.SampledFrom([]int{0, 10, 25}).Draw(rt, "invalidPct")
	nextID := 0
	drawAuth := func() int {
		if authPct == 0 || rapid.IntRange(0, 99).Draw(rt, "authRoll") >= authPct {
			return 0
		}
		if rapid.IntRange(0, 2).Draw(rt, "authLong") == 0 {
			return rapid.IntRange(300, 1200).Draw(rt, "authLongUS")
		}
		return rapid.IntRange(30, 300).Draw(rt, "authUS")
	}
	drawItem := func(ch int, sync bool, allowOddKinds bool) verifC29Item {
		it := verifC29Item{ID: nextID, Ch: ch, Sync: sync}
		nextID++
		it.From = fmt.Sprintf("u%d", rapid.IntRange(0, users-1).Draw(rt, "from"))
		roll := rapid.IntRange(0, 99).Draw(rt, "kindRoll")
		switch {
		case allowOddKinds && roll < invalidPct/4:
			it.Kind = verifC29KindAuthFail
			it.From = ""
			it.CNo = fmt.Sprintf("c%d", rapid.IntRange(0, keySpace-1).Draw(rt, "cno"))
			it.Payload = fmt.Sprintf("a|%d", it.ID)
		case allowOddKinds && roll < 2*invalidPct/4:
			it.Kind = verifC29KindEmptyPayload
			it.CNo = fmt.Sprintf("c%d", rapid.IntRange(0, keySpace-1).Draw(rt, "cno"))
		case allowOddKinds && roll < 3*invalidPct/4 && !sync:
			it.Kind = verifC29KindNoPersist
			it.CNo = fmt.Sprintf("c%d", rapid.IntRange(0, keySpace-1).Draw(rt, "cno"))
			it.Payload = fmt.Sprintf("n|%d", it.ID)
		case allowOddKinds && roll < invalidPct:
			it.Kind = verifC29KindDenied
			it.CNo = fmt.Sprintf("c%d", rapid.IntRange(0, keySpace-1).Draw(rt, "cno"))
			it.Payload = fmt.Sprintf("d|%d", it.ID)
		case roll < invalidPct+20:
			it.Kind = verifC29KindUnkeyed
			it.Payload = fmt.Sprintf("u|%d", it.ID)
		default:
			it.Kind = verifC29KindKeyed
			it.CNo = fmt.Sprintf("c%d", rapid.IntRange(0, keySpace-1).Draw(rt, "cno"))
			variant := 0
			if rapid.IntRange(0, 99).Draw(rt, "variantRoll") < conflictPct {
				variant = 1
			}
			// the same (sender, client number, payload) may be sent to a channel
			// and, as sync_once, to its command channel: idempotency is per channel
			it.Payload = fmt.Sprintf("k|%d|%s|%s|%d", ch, it.From, it.CNo, variant)
		}
		it.AuthUS = drawAuth()
		return it
	}
	drawSync := func() bool {
		return syncPct > 0 && rapid.IntRange(0, 99).Draw(rt, "syncRoll") < syncPct
	}
	// resend copies a send call: same keys and payloads, fresh item ids (what a
	// client does when the acknowledgement of its batch did not arrive)
	resend := func(prev verifC29Call) verifC29Call {
		call := verifC29Call{Mode: prev.Mode, Ch: prev.Ch, Cmd: prev.Cmd, Retry: true}
		for _, sub := range prev.Subs {
			var items []verifC29Item
			for _, it := range sub {
				it.ID = nextID
				nextID++
				switch it.Kind {
				case verifC29KindUnkeyed:
					it.Payload = fmt.Sprintf("u|%d", it.ID)
				case verifC29KindAuthFail:
					it.Payload = fmt.Sprintf("a|%d", it.ID)
				case verifC29KindNoPersist:
					it.Payload = fmt.Sprintf("n|%d", it.ID)
				case verifC29KindDenied:
					it.Payload = fmt.Sprintf("d|%d", it.ID)
				}
				it.AuthUS = drawAuth()
				items = append(items, it)
			}
			call.Subs = append(call.Subs, items)
		}
		return call
	}
	drawGaps := func(n int) []int {
		gapMode := rapid.IntRange(0, 3).Draw(rt, "gapMode")
		if !burst && gapMode != 0 {
			return nil
		}
		gaps := make([]int, n)
		for i := range gaps {
			switch rapid.IntRange(0, 3).Draw(rt, "gapKind") {
			case 0:
			case 1:
				gaps[i] = rapid.IntRange(1, 60).Draw(rt, "gapShortUS")
			default:
				gaps[i] = rapid.IntRange(60, 500).Draw(rt, "gapUS")
			}
		}
		return gaps
	}

	nCallers := rapid.IntRange(2, 6).Draw(rt, "callers")
	if burst {
		nCallers = 2 + nCallers%2
	}
	totalCalls := 0
	fenceOns := map[string]int{}
	for c := 0; c < nCallers; c++ {
		var caller verifC29Caller
		nCalls := rapid.IntRange(1, 4).Draw(rt, "calls")
		if burst && nCalls > 2 {
			nCalls = 2
		}
		lastSend := -1
		retryNext := false
		for j := 0; j < nCalls; j++ {
			call := verifC29Call{}
			kind := rapid.IntRange(0, 9).Draw(rt, "callKind")
			if retryNext {
				kind = 2 // the send before the fence is retried behind it
				retryNext = false
			}
			switch {
			case fenceCalls && kind < 2:
				// prefer a channel this caller just sent to
				call.Mode = verifC29ModeFence
				call.Ch = rapid.IntRange(0, p.Channels-1).Draw(rt, "fenceCh")
				call.Cmd = drawSync()
				if lastSend >= 0 && rapid.IntRange(0, 3).Draw(rt, "fenceOwn") > 0 {
					prev := caller.Calls[lastSend]
					sub := prev.Subs[rapid.IntRange(0, len(prev.Subs)-1).Draw(rt, "fenceSub")]
					it := sub[rapid.IntRange(0, len(sub)-1).Draw(rt, "fenceItem")]
					call.Ch, call.Cmd = it.Ch, it.Sync
				}
				name := verifC29StoreChannel(call.Ch, call.Cmd)
				// at most two activations per channel: a routed send can lose at most
				// two of its three route attempts to a fence raised behind its resolve
				call.FenceOn = fenceOns[name] < 2 && rapid.IntRange(0, 3).Draw(rt, "fenceOn") > 0
				if call.FenceOn {
					fenceOns[name]++
					if lastSend >= 0 && rapid.IntRange(0, 3).Draw(rt, "fenceThenRetry") > 0 {
						retryNext = true
						if j == nCalls-1 {
							nCalls++
						}
					}
				}
			case lastSend >= 0 && kind >= 2 && kind < 4:
				call = resend(caller.Calls[lastSend])
				if call.Mode == verifC29ModeLocal {
					call.GapsUS = drawGaps(len(call.Subs))
				}
			default:
				local := rapid.IntRange(0, 3).Draw(rt, "mode") == 0
				if burst {
					local = rapid.IntRange(0, 4).Draw(rt, "burstMode") > 0
				}
				if local {
					call.Mode = verifC29ModeLocal
					call.Ch = rapid.IntRange(0, p.Channels-1).Draw(rt, "localCh")
					call.Cmd = drawSync()
					nSubs := rapid.IntRange(1, 4).Draw(rt, "subs")
					maxItems := 5
					if burst {
						nSubs = rapid.IntRange(4, 10).Draw(rt, "burstSubs")
						maxItems = 2
					}
					for s := 0; s < nSubs; s++ {
						n := rapid.IntRange(1, maxItems).Draw(rt, "subItems")
						var items []verifC29Item
						for i := 0; i < n; i++ {
							items = append(items, drawItem(call.Ch, call.Cmd, true))
						}
						call.Subs = append(call.Subs, items)
					}
					call.GapsUS = drawGaps(nSubs)
				} else {
					call.Mode = verifC29ModeRouter
					n := rapid.IntRange(1, 8).Draw(rt, "batchItems")
					var items []verifC29Item
					for i := 0; i < n; i++ {
						items = append(items, drawItem(rapid.IntRange(0, p.Channels-1).Draw(rt, "ch"), drawSync(), true))
					}
					call.Subs = [][]verifC29Item{items}
				}
			}
			if rapid.IntRange(0, 3).Draw(rt, "pause") == 0 {
				call.PauseUS = rapid.IntRange(1, 300).Draw(rt, "pauseUS")
			}
			if call.Mode != verifC29ModeFence {
				lastSend = len(caller.Calls)
			}
			caller.Calls = append(caller.Calls, call)
			totalCalls++
		}
		p.Callers = append(p.Callers, caller)
	}

	faultMode := rapid.IntRange(0, 3).Draw(rt, "faultMode") // 0: fault-free
	if clean {
		faultMode = 0
	}
	for ch := 0; ch < p.Channels; ch++ {
		var behs []verifC29Beh
		n := rapid.IntRange(0, 10).Draw(rt, "behs")
		if burst {
			n = 10
		}
		for i := 0; i < n; i++ {
			b := verifC29Beh{}
			if faultMode != 0 {
				switch rapid.IntRange(0, 11).Draw(rt, "behKind") {
				case 0, 1:
					b.Kind = verifC29BehFailBefore
				case 2, 3, 4:
					b.Kind = verifC29BehCommitThenFail
				case 5:
					b.Kind = verifC29BehRouteErr
				case 6:
					b.Kind = verifC29BehItemErr
					b.Mask = rapid.Uint32Range(1, 255).Draw(rt, "mask")
				case 7:
					b.Kind = verifC29BehShort
				case 8:
					b.Kind = verifC29BehCommitThenRouteErr
				}
			}
			if rapid.IntRange(0, 2).Draw(rt, "slowB") == 0 {
				b.BeforeUS = rapid.IntRange(1, 500).Draw(rt, "beforeUS")
			} else if burst && rapid.IntRange(0, 3).Draw(rt, "slowBurst") > 0 {
				b.BeforeUS = rapid.IntRange(300, 2000).Draw(rt, "beforeBurstUS")
			}
			if rapid.IntRange(0, 3).Draw(rt, "slowA") == 0 {
				b.AfterUS = rapid.IntRange(1, 500).Draw(rt, "afterUS")
			}
			behs = append(behs, b)
		}
		p.Behs = append(p.Behs, behs)
	}

	p.StopAt = -1
	stopRoll := rapid.IntRange(0, 9).Draw(rt, "stopRoll")
	if (stopBias && stopRoll < 8) || (!stopBias && !clean && stopRoll < 2) {
		p.StopAt = rapid.IntRange(0, totalCalls).Draw(rt, "stopAt")
		if stopBias && totalCalls > 1 {
			p.StopAt = rapid.IntRange(1, totalCalls-1).Draw(rt, "stopAtMid")
		}
		p.StopShort = rapid.IntRange(0, 2).Draw(rt, "stopShort") > 0
	}
	return p
}

// ---- fakes ----

type verifC29Record struct {
	Seq     uint64 `json:"seq"`
	MsgID   uint64 `json:"msg_id"`
	From    string `json:"from"`
	CNo     string `json:"cno"`
	Payload string `json:"payload"`
	Hash    uint64 `json:"-"`
	Call    int    `json:"call"`
}

type verifC29ReqMsg struct {
	MsgID   uint64 `json:"msg_id"`
	Channel string `json:"channel"`
	From    string `json:"from"`
	CNo     string `json:"cno"`
	Payload string `json:"payload"`
}

type verifC29AppendCall struct {
	No       int              `json:"no"`
	Channel  string           `json:"channel"`
	Attempt  int              `json:"attempt"`
	Beh      verifC29Beh      `json:"beh"`
	Msgs     []verifC29ReqMsg `json:"msgs"`
	Outcome  string           `json:"outcome"`
	Seqs     []uint64         `json:"seqs"`
	StartTik int64            `json:"start_tick"`
	EndTik   int64            `json:"end_tick"`
	CtxErr   string           `json:"ctx_err,omitempty"`
}

// verifC29FenceEvent is one executed switch of a channel's durable write fence.
type verifC29FenceEvent struct {
	Channel string `json:"channel"`
	On      bool   `json:"on"`
	Tick    int64  `json:"tick"`
}

// verifC29AuthSpan is one call of the Authorizer port (prepare of one item).
type verifC29AuthSpan struct {
	Channel string `json:"channel"`
	Item    int    `json:"item"`
	Start   int64  `json:"start"`
	End     int64  `json:"end"`
}

type verifC29ChanStore struct {
	log      []verifC29Record
	idem     map[[2]string]int
	msgIDs   map[uint64]bool
	calls    int
	inflight int
	maxInfl  int
}

type verifC29Store struct {
	mu       sync.Mutex
	p        *verifC29Params
	clock    *atomic.Int64
	chans    map[string]*verifC29ChanStore
	calls    []*verifC29AppendCall
	lookups  int
	inflight atomic.Int64
	// fired flags (measured, not hoped)
	hiddenCommit  bool // a commit was reported as failure / with a missing result
	anyFault      bool
	lookupErrored bool
	conflictSeen  bool
	recoveryHit   bool // an idempotency lookup found a committed row with a matching payload
	// durable write fence per canonical channel (environment state; switched by
	// the callers' fence calls, read by the authority resolver and the Appender)
	fenced        map[string]bool
	fenceLog      []verifC29FenceEvent
	fenceRejected bool // an append was refused because the channel was write-fenced
	authSpans     []verifC29AuthSpan
	blockGate     chan struct{}
	gateOnce      sync.Once
}

func (s *verifC29Store) openGate() {
	if s.blockGate != nil {
		s.gateOnce.Do(func() { close(s.blockGate) })
	}
}

var (
	errVerifC29Injected = errors.New("verif: injected append failure")
	errVerifC29Conflict = errors.New("verif: idempotency key already stored")
	errVerifC29Lookup   = errors.New("verif: injected lookup failure")
)

func verifC29Hash(b []byte) uint64 {
	h := fnv.New64a()
	h.Write(b)
	return h.Sum64()
}

func verifC29Sleep(us int) {
	if us <= 0 {
		return
	}
	if us < 30 {
		runtime.Gosched()
		return
	}
	time.Sleep(time.Duration(us) * time.Microsecond)
}

func (s *verifC29Store) setFence(name string, on bool) {
	s.mu.Lock()
	if s.fenced == nil {
		s.fenced = map[string]bool{}
	}
	s.fenced[name] = on
	s.fenceLog = append(s.fenceLog, verifC29FenceEvent{Channel: name, On: on, Tick: s.clock.Add(1)})
	s.mu.Unlock()
}

func (s *verifC29Store) isFenced(name string) bool {
	s.mu.Lock()
	defer s.mu.Unlock()
	return s.fenced[name]
}

func (s *verifC29Store) chanStore(name string) *verifC29ChanStore {
	cs := s.chans[name]
	if cs == nil {
		cs = &verifC29ChanStore{idem: map[[2]string]int{}, msgIDs: map[uint64]bool{}}
		s.chans[name] = cs
	}
	return cs
}

func (s *verifC29Store) AppendBatch(ctx context.Context, req AppendBatchRequest) (AppendBatchResult, error) {
	s.inflight.Add(1)
	defer s.inflight.Add(-1)
	name := req.ChannelID.ID
	s.mu.Lock()
	cs := s.chanStore(name)
	idx := cs.calls
	cs.calls++
	cs.inflight++
	if cs.inflight > cs.maxInfl {
		cs.maxInfl = cs.inflight
	}
	var beh verifC29Beh
	chIdx := -1
	fmt.Sscanf(name, "g%d", &chIdx)
	if chIdx >= 0 && chIdx < len(s.p.Behs) && idx < len(s.p.Behs[chIdx]) {
		beh = s.p.Behs[chIdx][idx]
	}
	call := &verifC29AppendCall{No: len(s.calls), Channel: name, Attempt: req.Attempt, Beh: beh, StartTik: s.clock.Add(1)}
	for _, m := range req.Messages {
		call.Msgs = append(call.Msgs, verifC29ReqMsg{MsgID: m.MessageID, Channel: m.ChannelID, From: m.FromUID, CNo: m.ClientMsgNo, Payload: string(m.Payload)})
	}
	s.calls = append(s.calls, call)
	gate := s.blockGate
	s.mu.Unlock()
	defer func() {
		s.mu.Lock()
		cs.inflight--
		s.mu.Unlock()
	}()

	if gate != nil {
		<-gate
	}
	verifC29Sleep(beh.BeforeUS)

	s.mu.Lock()
	if err := ctx.Err(); err != nil {
		call.CtxErr = err.Error()
	}
	// durable-store validation: duplicate ids / keys reject the whole batch
	conflict := false
	seenKey := map[[2]string]bool{}
	seenID := map[uint64]bool{}
	for _, m := range req.Messages {
		if seenID[m.MessageID] || cs.msgIDs[m.MessageID] {
			conflict = true
		}
		seenID[m.MessageID] = true
		if m.FromUID == "" || m.ClientMsgNo == "" {
			continue
		}
		key := [2]string{m.FromUID, m.ClientMsgNo}
		if _, ok := cs.idem[key]; ok || seenKey[key] {
			conflict = true
		}
		seenKey[key] = true
	}
	finish := func(outcome string, res AppendBatchResult, err error) (AppendBatchResult, error) {
		call.Outcome = outcome
		call.EndTik = s.clock.Add(1)
		s.mu.Unlock()
		verifC29Sleep(beh.AfterUS)
		return res, err
	}
	if s.fenced[name] {
		// the durable channel refuses new writes while its metadata carries a
		// write fence (pkg/channel reactor: ErrWriteFenced at append admission,
		// before anything is stored; internal/infra/cluster maps it to
		// ErrRouteNotReady). Not an injected fault: the fence is environment state.
		s.fenceRejected = true
		return finish("write_fenced", AppendBatchResult{}, fmt.Errorf("%w: verif: channel write fenced", ErrRouteNotReady))
	}
	switch beh.Kind {
	case verifC29BehFailBefore:
		s.anyFault = true
		return finish("fail_before", AppendBatchResult{}, fmt.Errorf("%w: %w", ErrAppendFailed, errVerifC29Injected))
	case verifC29BehRouteErr:
		s.anyFault = true
		return finish("route_err", AppendBatchResult{}, fmt.Errorf("%w: %w", ErrNotLeader, errVerifC29Injected))
	}
	if conflict {
		s.conflictSeen = true
		return finish("conflict", AppendBatchResult{}, fmt.Errorf("%w: %w", ErrAppendFailed, errVerifC29Conflict))
	}
	res := AppendBatchResult{Items: make([]AppendBatchItemResult, len(req.Messages))}
	for i, m := range req.Messages {
		if beh.Kind == verifC29BehItemErr && beh.Mask&(1<<uint(i%8)) != 0 {
			s.anyFault = true
			res.Items[i] = AppendBatchItemResult{Err: errVerifC29Injected}
			continue
		}
		seq := uint64(len(cs.log) + 1)
		rec := verifC29Record{Seq: seq, MsgID: m.MessageID, From: m.FromUID, CNo: m.ClientMsgNo, Payload: string(m.Payload), Hash: verifC29Hash(m.Payload), Call: call.No}
		cs.log = append(cs.log, rec)
		cs.msgIDs[m.MessageID] = true
		if m.FromUID != "" && m.ClientMsgNo != "" {
			cs.idem[[2]string{m.FromUID, m.ClientMsgNo}] = len(cs.log) - 1
		}
		call.Seqs = append(call.Seqs, seq)
		res.Items[i] = AppendBatchItemResult{MessageID: m.MessageID, MessageSeq: seq}
	}
	switch beh.Kind {
	case verifC29BehCommitThenFail:
		s.anyFault = true
		s.hiddenCommit = s.hiddenCommit || len(call.Seqs) > 0
		return finish("commit_then_fail", AppendBatchResult{}, fmt.Errorf("%w: %w", ErrAppendFailed, errVerifC29Injected))
	case verifC29BehCommitThenRouteErr:
		s.anyFault = true
		s.hiddenCommit = s.hiddenCommit || len(call.Seqs) > 0
		return finish("commit_then_route_err", AppendBatchResult{}, fmt.Errorf("%w: %w", ErrNotLeader, errVerifC29Injected))
	case verifC29BehShort:
		if len(res.Items) > 0 {
			s.anyFault = true
			s.hiddenCommit = true
			res.Items = res.Items[:len(res.Items)-1]
		}
		return finish("short", res, nil)
	}
	return finish("ok", res, nil)
}

func (s *verifC29Store) LookupSend(ctx context.Context, q IdempotencyQuery) (SendResult, bool, error) {
	s.mu.Lock()
	defer s.mu.Unlock()
	n := s.lookups
	s.lookups++
	if n < len(s.p.LookupUS) && s.p.LookupUS[n] > 0 {
		s.mu.Unlock()
		verifC29Sleep(s.p.LookupUS[n])
		s.mu.Lock()
	}
	if n < len(s.p.LookupErrs) && s.p.LookupErrs[n] {
		s.lookupErrored = true
		s.anyFault = true
		return SendResult{}, false, errVerifC29Lookup
	}
	if q.FromUID == "" || q.ClientMsgNo == "" || q.ChannelID == "" || q.ChannelType == 0 {
		return SendResult{}, false, nil
	}
	cs := s.chans[q.ChannelID]
	if cs == nil {
		return SendResult{}, false, nil
	}
	i, ok := cs.idem[[2]string{q.FromUID, q.ClientMsgNo}]
	if !ok {
		return SendResult{}, false, nil
	}
	rec := cs.log[i]
	if q.PayloadHash != 0 && q.PayloadHash != rec.Hash {
		return SendResult{}, false, nil
	}
	s.recoveryHit = true
	return SendResult{MessageID: rec.MsgID, MessageSeq: rec.Seq, Reason: ReasonSuccess}, true, nil
}

type verifC29IDs struct{ n atomic.Uint64 }

func (a *verifC29IDs) Next() uint64 { return a.n.Add(1) + 1000 }

// verifC29Auth is the Authorizer port: drawn latency per item, refusal of the
// items of kind Denied, and a record of every call (who prepared what, when).
type verifC29Auth struct {
	st    *verifC29Store
	items map[uint64]verifC29Item // by ClientSeq
}

func (a *verifC29Auth) AuthorizeSend(_ context.Context, cmd SendCommand) (Decision, error) {
	it, ok := a.items[cmd.ClientSeq]
	if !ok {
		return Decision{Allowed: true, Reason: ReasonSuccess}, nil
	}
	start := a.st.clock.Add(1)
	verifC29Sleep(it.AuthUS)
	span := verifC29AuthSpan{Channel: it.chanName(), Item: it.ID, Start: start, End: a.st.clock.Add(1)}
	a.st.mu.Lock()
	a.st.authSpans = append(a.st.authSpans, span)
	a.st.mu.Unlock()
	if it.Kind == verifC29KindDenied {
		return Decision{Allowed: false, Reason: ReasonNotAllowSend}, nil
	}
	return Decision{Allowed: true, Reason: ReasonSuccess}, nil
}

type verifC29Resolver struct {
	p  *verifC29Params
	st *verifC29Store
	n  atomic.Int64
}

// ResolveAppendAuthority reports the channel's current durable write fence;
// the drawn Fenced list additionally makes single resolves report a fence the
// store does not have (a stale view of the metadata).
func (r *verifC29Resolver) ResolveAppendAuthority(_ context.Context, id ChannelID) (AuthorityTarget, error) {
	n := int(r.n.Add(1) - 1)
	return verifC29Target(id.ID, (n < len(r.p.Fenced) && r.p.Fenced[n]) || r.st.isFenced(id.ID)), nil
}

func verifC29Target(name string, fenced bool) AuthorityTarget {
	id := ChannelID{ID: name, Type: verifC29ChannelType}
	return AuthorityTarget{ChannelID: id, ChannelKey: channelKey(id), LeaderNodeID: verifC29LocalNode, Epoch: 3, LeaderEpoch: 5, RouteGeneration: 1, WriteFenced: fenced}
}

type verifC29PostEvent struct {
	Channel string `json:"channel"`
	Seq     uint64 `json:"seq"`
	MsgID   uint64 `json:"msg_id"`
	Payload string `json:"payload"`
	CtxErr  string `json:"ctx_err,omitempty"`
}

type verifC29PersistAfter struct {
	mu     sync.Mutex
	slowUS int
	events []verifC29PostEvent
}

func (pa *verifC29PersistAfter) EnqueuePersistAfter(ctx context.Context, e CommittedEnvelope) {
	verifC29Sleep(pa.slowUS)
	ev := verifC29PostEvent{Channel: e.ChannelID, Seq: e.MessageSeq, MsgID: e.MessageID, Payload: string(e.Payload)}
	if ctx != nil && ctx.Err() != nil {
		ev.CtxErr = ctx.Err().Error()
	}
	pa.mu.Lock()
	pa.events = append(pa.events, ev)
	pa.mu.Unlock()
}

// ---- recorded history ----

type verifC29Res struct {
	Err    string `json:"err,omitempty"`
	Class  string `json:"class,omitempty"` // sentinel class of Err
	Reason uint8  `json:"reason"`
	MsgID  uint64 `json:"msg_id"`
	Seq    uint64 `json:"seq"`
}

func (r verifC29Res) success() bool { return r.Err == "" && Reason(r.Reason) == ReasonSuccess }

type verifC29SubRecord struct {
	Caller    int            `json:"caller"`
	Call      int            `json:"call"`
	Sub       int            `json:"sub"`
	Mode      int            `json:"mode"`
	Items     []verifC29Item `json:"items"`
	StartTick int64          `json:"start_tick"`
	EndTick   int64          `json:"end_tick"`  // the submitting call returned (local mode: the batch was accepted)
	DoneTick  int64          `json:"done_tick"` // the results were in the caller's hands
	Fenced    bool           `json:"fenced,omitempty"` // local mode: the target carried WriteFenced
	SubmitErr string         `json:"submit_err,omitempty"`
	SubmitCls string         `json:"submit_class,omitempty"`
	Results   []verifC29Res  `json:"results"`
	Results2  []verifC29Res  `json:"results2,omitempty"` // second snapshot of a Future after the final Stop
	future    *Future
}

type verifC29StopRecord struct {
	BeginTick  int64  `json:"begin_tick"`
	ReturnTick int64  `json:"return_tick"`
	Short      bool   `json:"short"`
	Err        string `json:"err,omitempty"`
	// measured at the instant the early Stop returned
	AppendBlockedAtReturn bool `json:"append_blocked_at_return"`
	// futures admitted (SubmitLocal had returned them) but not resolved at the instant a Stop returned nil
	UnresolvedAtNil int `json:"unresolved_at_nil"`
}

type verifC29History struct {
	Params      verifC29Params                 `json:"params"`
	Subs        []*verifC29SubRecord           `json:"subs"`
	AppendCalls []*verifC29AppendCall          `json:"append_calls"`
	Store       map[string][]verifC29Record    `json:"store"`
	MaxInflight map[string]int                 `json:"max_inflight"`
	Post        []verifC29PostEvent            `json:"post"`
	Stops       []verifC29StopRecord           `json:"stops"`
	Fences      []verifC29FenceEvent           `json:"fences,omitempty"`
	AuthSpans   []verifC29AuthSpan             `json:"auth_spans,omitempty"`
	FinalStop   string                         `json:"final_stop"`
	Hung        string                         `json:"hung,omitempty"` // "", "quiescent", "busy"
	Flags       map[string]bool                `json:"flags"`
	TrafficUS   int64                          `json:"traffic_us"`
	StopUS      int64                          `json:"stop_us"`
	unjoined    bool
}

func verifC29ErrClass(err error) string {
	switch {
	case err == nil:
		return ""
	case errors.Is(err, ErrRouteNotReady):
		return "route_not_ready"
	case errors.Is(err, ErrBackpressured):
		return "backpressured"
	case errors.Is(err, ErrChannelBusy):
		return "channel_busy"
	case errors.Is(err, ErrNotLeader):
		return "not_leader"
	case errors.Is(err, ErrStaleRoute):
		return "stale_route"
	case errors.Is(err, ErrAppendResultMissing):
		return "result_missing"
	case errors.Is(err, ErrAppendFailed):
		return "append_failed"
	case errors.Is(err, context.Canceled):
		return "canceled"
	case errors.Is(err, context.DeadlineExceeded):
		return "deadline"
	case errors.Is(err, errVerifC29Lookup):
		return "lookup"
	default:
		return "other"
	}
}

func verifC29ToRes(in []SendBatchItemResult) []verifC29Res {
	out := make([]verifC29Res, len(in))
	for i, r := range in {
		out[i] = verifC29Res{Reason: uint8(r.Result.Reason), MsgID: r.Result.MessageID, Seq: r.Result.MessageSeq}
		if r.Err != nil {
			out[i].Err = r.Err.Error()
			out[i].Class = verifC29ErrClass(r.Err)
		}
	}
	return out
}

func verifC29Command(it verifC29Item) SendCommand {
	cmd := SendCommand{
		FromUID:     it.From,
		ClientMsgNo: it.CNo,
		ClientSeq:   uint64(it.ID + 1),
		ChannelID:   verifC29ChannelName(it.Ch),
		ChannelType: verifC29ChannelType,
		Payload:     []byte(it.Payload),
	}
	if it.Kind == verifC29KindNoPersist {
		cmd.NoPersist = true
	}
	cmd.SyncOnce = it.Sync
	return cmd
}

// verifC29Idle reports whether nothing inside the group or the fakes can make
// progress any more: no append call in flight, no pool task, no scheduled
// writer, no queued activation, no retry owner.
func verifC29Idle(g *Group, st *verifC29Store) bool {
	if st.inflight.Load() != 0 {
		return false
	}
	if g.appendPool.running() != 0 || g.advancePool.running() != 0 || g.postCommitPool.running() != 0 {
		return false
	}
	if g.advanceScheduler.waiting() != 0 || g.postCommitRetries.pending() > 0 || g.postCommitRetries.isContended() {
		return false
	}
	for _, s := range g.shards {
		s.mu.RLock()
		for _, w := range s.writers {
			if w.scheduled.Load() {
				s.mu.RUnlock()
				return false
			}
		}
		s.mu.RUnlock()
	}
	return true
}

func verifC29WaitTimeout() time.Duration {
	return time.Duration(kit.Scale("C29_WAIT_S", 40, 60)) * time.Second
}

// verifC29Run executes the workload against the real Group + Router.
// blockAppends (C41) makes every append call wait on a gate that is opened
// only after the early Stop returned.
func verifC29Run(p verifC29Params, blockAppends bool) *verifC29History {
	var clock atomic.Int64
	st := &verifC29Store{p: &p, clock: &clock, chans: map[string]*verifC29ChanStore{}}
	if blockAppends && p.StopAt >= 0 {
		st.blockGate = make(chan struct{})
	}
	opts := Options{
		LocalNodeID:                 verifC29LocalNode,
		Appender:                    st,
		MessageID:                   &verifC29IDs{},
		Idempotency:                 st,
		AuthorityShardCount:         p.Shards,
		AdvancePoolSize:             p.AdvancePool,
		EffectPoolSize:              p.EffectPool,
		ChannelBacklogHighWatermark: p.Watermark,
		AdmissionCapacityPerShard:   p.Admission,
		PostCommitHandoffCapacity:   p.HandoffCap,
	}
	auth := &verifC29Auth{st: st, items: map[uint64]verifC29Item{}}
	for _, c := range p.Callers {
		for _, call := range c.Calls {
			for _, sub := range call.Subs {
				for _, it := range sub {
					auth.items[uint64(it.ID+1)] = it
				}
			}
		}
	}
	opts.Authorizer = auth
	switch {
	case p.CoalesceUS < 0:
		opts.InboxCoalesceWindow = -1
	case p.CoalesceUS > 0:
		opts.InboxCoalesceWindow = time.Duration(p.CoalesceUS) * time.Microsecond
	}
	var pa *verifC29PersistAfter
	if p.PostCommit {
		pa = &verifC29PersistAfter{slowUS: p.PostSlowUS}
		opts.PersistAfterEnqueuer = pa
	}
	g := New(opts)
	h := &verifC29History{Params: p, Flags: map[string]bool{}}
	if err := g.Start(context.Background()); err != nil {
		h.FinalStop = "start failed: " + err.Error()
		return h
	}
	router := NewRouter(RouterOptions{LocalNodeID: verifC29LocalNode, Resolver: &verifC29Resolver{p: &p, st: st}, Local: g})

	caseCtx, cancelCase := context.WithCancel(context.Background())
	defer cancelCase()

	var histMu sync.Mutex
	var futs []*Future
	unresolved := func() int {
		histMu.Lock()
		list := append([]*Future(nil), futs...)
		histMu.Unlock()
		n := 0
		for _, f := range list {
			select {
			case <-f.done:
			default:
				n++
			}
		}
		return n
	}
	stopAt := p.StopAt
	if st.blockGate != nil && len(p.Callers) > 0 {
		// with blocked appends only the first call of every caller is certain to start
		stopAt = p.StopAt % len(p.Callers)
		h.Params.StopAt = stopAt
	}
	var callCounter atomic.Int64
	var stopOnce sync.Once
	var wg sync.WaitGroup
	earlyStop := func() {
		stopOnce.Do(func() {
			rec := verifC29StopRecord{Short: p.StopShort, BeginTick: clock.Add(1)}
			var ctx context.Context
			var cancel context.CancelFunc
			if p.StopShort {
				if st.blockGate != nil && stopAt > 0 {
					// scheduling aid only: give already started calls a moment to reach the (blocked) Appender
					for i := 0; i < 300 && st.inflight.Load() == 0; i++ {
						time.Sleep(100 * time.Microsecond)
					}
				}
				ctx, cancel = context.WithDeadline(context.Background(), time.Now().Add(-time.Second))
			} else {
				ctx, cancel = context.WithTimeout(caseCtx, verifC29WaitTimeout())
			}
			if !p.StopShort {
				// a patient Stop must be able to finish: open the gate first
				st.openGate()
			}
			err := g.Stop(ctx)
			cancel()
			if err == nil {
				rec.UnresolvedAtNil = unresolved()
			}
			rec.AppendBlockedAtReturn = st.blockGate != nil && p.StopShort && st.inflight.Load() > 0
			rec.ReturnTick = clock.Add(1)
			if err != nil {
				rec.Err = err.Error()
			}
			histMu.Lock()
			h.Stops = append(h.Stops, rec)
			histMu.Unlock()
			st.openGate()
		})
	}

	for ci := range p.Callers {
		wg.Add(1)
		go func(ci int) {
			defer wg.Done()
			for cj, call := range p.Callers[ci].Calls {
				if int(callCounter.Add(1)-1) == stopAt {
					earlyStop()
				}
				verifC29Sleep(call.PauseUS)
				if call.Mode == verifC29ModeFence {
					st.setFence(verifC29StoreChannel(call.Ch, call.Cmd), call.FenceOn)
					continue
				}
				if call.Mode == verifC29ModeRouter {
					rec := &verifC29SubRecord{Caller: ci, Call: cj, Mode: call.Mode, Items: call.Subs[0]}
					items := make([]SendBatchItem, len(rec.Items))
					for i, it := range rec.Items {
						items[i] = SendBatchItem{Context: caseCtx, Command: verifC29Command(it)}
					}
					rec.StartTick = clock.Add(1)
					res := router.SendBatch(items)
					rec.EndTick = clock.Add(1)
					rec.DoneTick = rec.EndTick
					rec.Results = verifC29ToRes(res)
					histMu.Lock()
					h.Subs = append(h.Subs, rec)
					histMu.Unlock()
					continue
				}
				// pipelined SubmitLocal: submit every batch first, then wait
				recs := make([]*verifC29SubRecord, len(call.Subs))
				target := verifC29StoreChannel(call.Ch, call.Cmd)
				for si, sub := range call.Subs {
					if si < len(call.GapsUS) {
						verifC29Sleep(call.GapsUS[si])
					}
					rec := &verifC29SubRecord{Caller: ci, Call: cj, Sub: si, Mode: call.Mode, Items: sub}
					items := make([]SendBatchItem, len(sub))
					for i, it := range sub {
						items[i] = SendBatchItem{Context: caseCtx, Command: verifC29Command(it)}
					}
					rec.StartTick = clock.Add(1)
					// the resolved target carries the fence the channel has right now
					rec.Fenced = st.isFenced(target)
					f, err := g.SubmitLocal(caseCtx, verifC29Target(target, rec.Fenced), items)
					rec.EndTick = clock.Add(1)
					if err != nil {
						rec.SubmitErr = err.Error()
						rec.SubmitCls = verifC29ErrClass(err)
					}
					rec.future = f
					if f != nil {
						histMu.Lock()
						futs = append(futs, f)
						histMu.Unlock()
					}
					recs[si] = rec
				}
				for _, rec := range recs {
					if rec.future != nil {
						res, err := rec.future.Wait(caseCtx)
						if err != nil {
							rec.SubmitErr = "wait: " + err.Error()
							rec.SubmitCls = "wait_" + verifC29ErrClass(err)
						} else {
							rec.Results = verifC29ToRes(res)
						}
					}
					rec.DoneTick = clock.Add(1)
					histMu.Lock()
					h.Subs = append(h.Subs, rec)
					histMu.Unlock()
				}
			}
		}(ci)
	}

	t0 := time.Now()
	joined := make(chan struct{})
	go func() { wg.Wait(); close(joined) }()
	waitJoin := func() bool {
		timer := time.NewTimer(verifC29WaitTimeout())
		defer timer.Stop()
		select {
		case <-joined:
			return true
		case <-timer.C:
			return false
		}
	}
	classifyHang := func() string {
		for i := 0; i < 100; i++ {
			if !verifC29Idle(g, st) {
				return "busy"
			}
			time.Sleep(2 * time.Millisecond)
		}
		return "quiescent"
	}
	if !waitJoin() {
		h.Hung = classifyHang()
		st.openGate()
		cancelCase()
		if !waitJoin() {
			h.unjoined = true
			return h
		}
	}

	if p.StopAt >= 0 && h.Hung == "" {
		// a StopAt beyond the last call index: Stop after every caller returned
		earlyStop()
	}
	st.openGate()

	// final Stop: the quiescent point at which liveness clauses are judged
	h.TrafficUS = time.Since(t0).Microseconds()
	t1 := time.Now()
	stopCtx, cancelStop := context.WithTimeout(context.Background(), verifC29WaitTimeout())
	finalBegin := clock.Add(1)
	err := g.Stop(stopCtx)
	cancelStop()
	h.StopUS = time.Since(t1).Microseconds()
	if err != nil {
		h.FinalStop = err.Error()
		if h.Hung == "" {
			h.Hung = classifyHang()
		}
	}
	frec := verifC29StopRecord{BeginTick: finalBegin, ReturnTick: clock.Add(1)}
	if err != nil {
		frec.Err = err.Error()
	} else {
		frec.UnresolvedAtNil = unresolved()
	}
	h.Stops = append(h.Stops, frec)

	// a submit after the final Stop returned must be rejected
	if err == nil {
		_, lateErr := g.SubmitLocal(context.Background(), verifC29Target(verifC29ChannelName(0), false), []SendBatchItem{{Command: verifC29Command(verifC29Item{ID: 1 << 20, Kind: verifC29KindUnkeyed, From: "late", Payload: "late"})}})
		h.Flags["late_submit_rejected"] = errors.Is(lateErr, ErrRouteNotReady)
		h.Flags["late_submit_checked"] = true
		// a later Stop returns immediately and reports the same completed drain
		h.Flags["second_stop_nil"] = g.Stop(context.Background()) == nil
	}
	for _, rec := range h.Subs {
		if rec.future != nil && rec.Results != nil {
			if res, err := rec.future.Wait(context.Background()); err == nil {
				rec.Results2 = verifC29ToRes(res)
			}
		}
	}

	st.mu.Lock()
	h.AppendCalls = st.calls
	h.Store = map[string][]verifC29Record{}
	h.MaxInflight = map[string]int{}
	for name, cs := range st.chans {
		h.Store[name] = append([]verifC29Record(nil), cs.log...)
		h.MaxInflight[name] = cs.maxInfl
	}
	h.Flags["hidden_commit"] = st.hiddenCommit
	h.Flags["any_fault"] = st.anyFault
	h.Flags["lookup_errored"] = st.lookupErrored
	h.Flags["conflict_seen"] = st.conflictSeen
	h.Flags["recovery_hit"] = st.recoveryHit
	h.Flags["fence_rejected"] = st.fenceRejected
	h.Fences = append([]verifC29FenceEvent(nil), st.fenceLog...)
	h.AuthSpans = append([]verifC29AuthSpan(nil), st.authSpans...)
	st.mu.Unlock()
	if pa != nil {
		pa.mu.Lock()
		h.Post = append([]verifC29PostEvent(nil), pa.events...)
		pa.mu.Unlock()
	}
	sort.SliceStable(h.Subs, func(i, j int) bool {
		a, b := h.Subs[i], h.Subs[j]
		if a.Caller != b.Caller {
			return a.Caller < b.Caller
		}
		if a.Call != b.Call {
			return a.Call < b.Call
		}
		return a.Sub < b.Sub
	})
	return h
}

// ---- oracle ----

type verifC29Verdict struct {
	violations []string
	// measured facts for labels / non-trivial
	dupRacing      bool // a duplicate key was in flight/submitted while its original was not yet resolved (same or overlapping submissions)
	dupInBatch     bool
	dupAcross      bool
	conflictItems  bool
	retryHits      int
	successes      int
	failures       int
	busy           int
	strong         bool
	calm           bool // no injected fault, no key conflict, default limits, no early stop (write fences allowed)
	// measured schedule / input shapes
	ackedRetries       int // retries submitted after their original had been acknowledged
	ackedRetriesFenced int // ... while the channel was write-fenced
	ackedRetriesSync   int // ... fenced, of a sync_once send (command channel)
	hbPairs            int // pairs of submissions ordered by "accepted before the other was submitted" with fresh successes on one channel
	hbPairsCross       int // ... from two different callers
	syncSuccess        int
	denied             int
}

func (v *verifC29Verdict) fail(format string, args ...any) {
	if len(v.violations) < 12 {
		v.violations = append(v.violations, fmt.Sprintf(format, args...))
	}
}

type verifC29Logical struct {
	ch      string // canonical channel (command channel for sync_once sends)
	from    string
	cno     string
	payload string
}

func verifC29Judge(h *verifC29History) *verifC29Verdict {
	v := &verifC29Verdict{}
	p := h.Params
	if h.Hung == "quiescent" {
		v.fail("an admitted send never received a result: callers/Stop still waiting while the group and its ports are quiescent (final stop: %q)", h.FinalStop)
		return v
	}
	if h.Hung != "" || h.FinalStop != "" {
		return v // inconclusive, handled by the caller
	}

	// index the workload
	count := map[verifC29Logical]int{}
	keyVariants := map[[3]string]map[string]bool{}
	payloadOwner := map[string]verifC29Item{} // payload+channel -> an item carrying it
	for _, rec := range h.Subs {
		seenInSub := map[verifC29Logical]bool{}
		for _, it := range rec.Items {
			if it.Kind != verifC29KindKeyed && it.Kind != verifC29KindUnkeyed {
				continue
			}
			l := verifC29Logical{it.chanName(), it.From, it.CNo, it.Payload}
			count[l]++
			if it.Kind == verifC29KindKeyed {
				if seenInSub[l] {
					v.dupInBatch = true
				}
				seenInSub[l] = true
				k := [3]string{it.chanName(), it.From, it.CNo}
				if keyVariants[k] == nil {
					keyVariants[k] = map[string]bool{}
				}
				keyVariants[k][it.Payload] = true
			}
			payloadOwner[it.chanName()+"\x00"+it.Payload] = it
		}
	}
	for l, n := range count {
		if n > 1 && l.cno != "" {
			v.dupAcross = true
		}
	}
	for _, vs := range keyVariants {
		if len(vs) > 1 {
			v.conflictItems = true
		}
	}

	// 1. alignment: one result per item, in its own position
	owned := map[string]map[uint64]int{} // channel -> seq -> number of success results
	for _, rec := range h.Subs {
		if rec.SubmitErr != "" {
			if rec.Results != nil {
				v.fail("caller %d call %d sub %d: submit failed (%s) but results were produced", rec.Caller, rec.Call, rec.Sub, rec.SubmitErr)
			}
			if strings.HasPrefix(rec.SubmitCls, "wait_") {
				v.fail("caller %d call %d sub %d: future wait failed: %s", rec.Caller, rec.Call, rec.Sub, rec.SubmitErr)
			}
			continue
		}
		if len(rec.Results) != len(rec.Items) {
			v.fail("caller %d call %d sub %d: %d results for %d items", rec.Caller, rec.Call, rec.Sub, len(rec.Results), len(rec.Items))
			continue
		}
		if rec.Results2 != nil {
			for i := range rec.Results {
				if i < len(rec.Results2) && rec.Results[i] != rec.Results2[i] {
					v.fail("caller %d call %d sub %d item %d: result changed after completion: %+v then %+v", rec.Caller, rec.Call, rec.Sub, i, rec.Results[i], rec.Results2[i])
				}
			}
		}
		for i, it := range rec.Items {
			r := rec.Results[i]
			where := fmt.Sprintf("caller %d call %d sub %d item %d (id %d, %s %s/%s %q)", rec.Caller, rec.Call, rec.Sub, i, it.ID, it.chanName(), it.From, it.CNo, it.Payload)
			switch r.Class {
			case "channel_busy", "backpressured":
				v.busy++
			}
			switch it.Kind {
			case verifC29KindAuthFail:
				if r.Err != "" || Reason(r.Reason) != ReasonAuthFail || r.MsgID != 0 || r.Seq != 0 {
					v.fail("%s: unauthenticated item got %+v, want reason AuthFail (misaligned result)", where, r)
				}
				continue
			case verifC29KindEmptyPayload:
				if r.Err != "" || Reason(r.Reason) != ReasonInvalidRequest || r.MsgID != 0 || r.Seq != 0 {
					v.fail("%s: empty-payload item got %+v, want reason InvalidRequest (misaligned result)", where, r)
				}
				continue
			case verifC29KindNoPersist:
				if r.success() && (r.MsgID != 0 || r.Seq != 0) {
					v.fail("%s: plain no-persist item got a durable id/seq %+v (misaligned result)", where, r)
				}
				if rec.Mode == verifC29ModeRouter && !r.success() {
					v.fail("%s: plain no-persist item is a pre-route success, got %+v", where, r)
				}
				continue
			case verifC29KindDenied:
				// refused by the Authorizer port before a message id is allocated:
				// either its own refusal reason or an error of the path, never a
				// success and never an id or sequence
				v.denied++
				if r.success() || r.MsgID != 0 || r.Seq != 0 || (r.Err == "" && Reason(r.Reason) != ReasonNotAllowSend) {
					v.fail("%s: item refused by the authorizer got %+v, want reason NotAllowSend (misaligned result)", where, r)
				}
				continue
			}
			if !r.success() {
				v.failures++
				if r.Err == "" && Reason(r.Reason) == ReasonSuccess {
					v.fail("%s: impossible", where)
				}
				continue
			}
			v.successes++
			if it.Sync {
				v.syncSuccess++
			}
			log := h.Store[it.chanName()]
			if r.Seq == 0 || r.Seq > uint64(len(log)) {
				v.fail("%s: success with seq %d but channel log has %d records", where, r.Seq, len(log))
				continue
			}
			stored := log[r.Seq-1]
			if stored.MsgID != r.MsgID {
				v.fail("%s: success (id %d, seq %d) but the record stored at that seq has id %d", where, r.MsgID, r.Seq, stored.MsgID)
				continue
			}
			if stored.From != it.From || stored.CNo != it.CNo || stored.Payload != it.Payload {
				v.fail("%s: success (id %d, seq %d) points at a record of another send: stored %s/%s %q", where, r.MsgID, r.Seq, stored.From, stored.CNo, stored.Payload)
				continue
			}
			ch := it.chanName()
			if owned[ch] == nil {
				owned[ch] = map[uint64]int{}
			}
			owned[ch][r.Seq]++
			if count[verifC29Logical{it.chanName(), it.From, it.CNo, it.Payload}] > 1 && it.Kind == verifC29KindKeyed {
				v.retryHits++
			}
		}
	}

	// 2. order: fresh successes of one caller to one channel get strictly increasing sequences in submission order
	// (a send without a client number that a fault made the environment store
	// twice -- committed, reported as a route error, resubmitted by the Router --
	// has no single sequence and is left out)
	storedCopies := map[string]int{}
	for name, log := range h.Store {
		for _, rec := range log {
			storedCopies[name+"\x00"+rec.Payload]++
		}
	}
	type orderKey struct {
		caller int
		ch     string
	}
	last := map[orderKey]uint64{}
	lastWhere := map[orderKey]string{}
	// per channel: the fresh successes of every submission with its span
	type hbEntry struct {
		rec            *verifC29SubRecord
		minSeq, maxSeq uint64
	}
	hb := map[string][]*hbEntry{}
	for _, rec := range h.Subs { // sorted by caller, call, sub
		if rec.SubmitErr != "" || len(rec.Results) != len(rec.Items) {
			continue
		}
		entries := map[string]*hbEntry{}
		for i, it := range rec.Items {
			if it.Kind != verifC29KindKeyed && it.Kind != verifC29KindUnkeyed {
				continue
			}
			r := rec.Results[i]
			if !r.success() || count[verifC29Logical{it.chanName(), it.From, it.CNo, it.Payload}] != 1 {
				continue
			}
			if storedCopies[it.chanName()+"\x00"+it.Payload] != 1 {
				continue
			}
			k := orderKey{rec.Caller, it.chanName()}
			where := fmt.Sprintf("call %d sub %d item %d (seq %d)", rec.Call, rec.Sub, i, r.Seq)
			if r.Seq <= last[k] {
				v.fail("caller %d channel %s: sequences not increasing in submission order: %s then %s", rec.Caller, it.chanName(), lastWhere[k], where)
			}
			last[k] = r.Seq
			lastWhere[k] = where
			e := entries[it.chanName()]
			if e == nil {
				e = &hbEntry{rec: rec, minSeq: r.Seq, maxSeq: r.Seq}
				entries[it.chanName()] = e
				hb[it.chanName()] = append(hb[it.chanName()], e)
			}
			if r.Seq < e.minSeq {
				e.minSeq = r.Seq
			}
			if r.Seq > e.maxSeq {
				e.maxSeq = r.Seq
			}
		}
	}
	// 2b. submission order across callers: a submission that had been accepted
	// (SubmitLocal / SendBatch had returned) before another one to the same
	// channel was submitted precedes it; its fresh successes get the smaller
	// sequences. Logical ticks taken around the calls decide "before".
	for name, list := range hb {
		for _, a := range list {
			for _, b := range list {
				if a == b || a.rec.EndTick >= b.rec.StartTick {
					continue
				}
				v.hbPairs++
				if a.rec.Caller != b.rec.Caller {
					v.hbPairsCross++
				}
				if a.maxSeq >= b.minSeq {
					v.fail("channel %s: caller %d call %d sub %d was accepted (tick %d) before caller %d call %d sub %d was submitted (tick %d), yet its sends got seq up to %d and the later submission got seq from %d", name, a.rec.Caller, a.rec.Call, a.rec.Sub, a.rec.EndTick, b.rec.Caller, b.rec.Call, b.rec.Sub, b.rec.StartTick, a.maxSeq, b.minSeq)
				}
			}
		}
	}

	// 3. what reached the Appender port
	for name, n := range h.MaxInflight {
		if n > 1 {
			v.fail("channel %s: %d AppendBatch calls in flight at once (one writer, one in-flight batch per channel)", name, n)
		}
	}
	for _, c := range h.AppendCalls {
		seen := map[verifC29Logical]bool{}
		ids := map[uint64]bool{}
		if c.Attempt != appendInitialAttempt && c.Attempt != appendIdempotencyRecoveryAttempt {
			v.fail("append call %d: attempt %d (a third append attempt is never made)", c.No, c.Attempt)
		}
		if c.CtxErr != "" {
			v.fail("append call %d on %s ran with a cancelled context: %s", c.No, c.Channel, c.CtxErr)
		}
		for _, m := range c.Msgs {
			if m.Channel != c.Channel {
				v.fail("append call %d for %s carries a message of channel %s", c.No, c.Channel, m.Channel)
			}
			if m.MsgID == 0 || ids[m.MsgID] {
				v.fail("append call %d: message id %d is zero or repeated inside the request", c.No, m.MsgID)
			}
			ids[m.MsgID] = true
			if m.From != "" && m.CNo != "" {
				l := verifC29Logical{"", m.From, m.CNo, m.Payload}
				if seen[l] {
					v.fail("append call %d on %s: the same send (%s/%s %q) was passed to the Appender twice in one request (in-batch retry not coalesced)", c.No, c.Channel, m.From, m.CNo, m.Payload)
				}
				seen[l] = true
			}
			if _, ok := payloadOwner[c.Channel+"\x00"+m.Payload]; !ok {
				v.fail("append call %d on %s: message %q was never submitted to this channel", c.No, c.Channel, m.Payload)
			}
		}
	}

	// 4. the store: nothing invented, one row per key, every row accounted for
	for name, log := range h.Store {
		keys := map[[2]string]bool{}
		for _, rec := range log {
			it, ok := payloadOwner[name+"\x00"+rec.Payload]
			if !ok || it.From != rec.From || it.CNo != rec.CNo {
				v.fail("channel %s seq %d: stored record %s/%s %q matches no submitted send", name, rec.Seq, rec.From, rec.CNo, rec.Payload)
			}
			if rec.From != "" && rec.CNo != "" {
				k := [2]string{rec.From, rec.CNo}
				if keys[k] {
					v.fail("channel %s: key %s/%s stored twice", name, rec.From, rec.CNo)
				}
				keys[k] = true
			}
			if !h.Flags["hidden_commit"] && owned[name][rec.Seq] == 0 {
				v.fail("channel %s seq %d (%s/%s %q): record is stored, no append reported a failure after committing, yet no item received it as its success result", name, rec.Seq, rec.From, rec.CNo, rec.Payload)
			}
			if rec.CNo == "" && owned[name][rec.Seq] > 1 {
				v.fail("channel %s seq %d: %d items without a client number share one stored record", name, rec.Seq, owned[name][rec.Seq])
			}
		}
	}

	// 5. post-commit hand-off: once per new commit, in channel order, never for a recovered retry
	if p.PostCommit {
		seenPost := map[string]map[uint64]bool{}
		lastPost := map[string]uint64{}
		for _, e := range h.Post {
			log := h.Store[e.Channel]
			if e.Seq == 0 || e.Seq > uint64(len(log)) || log[e.Seq-1].MsgID != e.MsgID || log[e.Seq-1].Payload != e.Payload {
				v.fail("post-commit event %s seq %d id %d matches no stored record", e.Channel, e.Seq, e.MsgID)
				continue
			}
			if seenPost[e.Channel] == nil {
				seenPost[e.Channel] = map[uint64]bool{}
			}
			if seenPost[e.Channel][e.Seq] {
				v.fail("post-commit effect ran twice for %s seq %d", e.Channel, e.Seq)
			}
			seenPost[e.Channel][e.Seq] = true
			if e.Seq <= lastPost[e.Channel] {
				v.fail("post-commit effects of %s out of order: seq %d after %d", e.Channel, e.Seq, lastPost[e.Channel])
			}
			lastPost[e.Channel] = e.Seq
			if e.CtxErr != "" {
				v.fail("post-commit effect for %s seq %d ran with a cancelled runtime context (%s)", e.Channel, e.Seq, e.CtxErr)
			}
		}
		if !h.Flags["hidden_commit"] {
			for name, log := range h.Store {
				for _, rec := range log {
					if !seenPost[name][rec.Seq] {
						v.fail("channel %s seq %d: acknowledged commit never reached the post-commit effect although Stop returned nil", name, rec.Seq)
					}
				}
			}
		}
	}

	// 6. fault-free, unconstrained run: every valid send succeeds; every retry returns the original
	total := 0
	for _, c := range p.Callers {
		total += len(c.Calls)
	}
	v.calm = !h.Flags["any_fault"] && !v.conflictItems && !p.limited() && (p.StopAt < 0 || p.StopAt >= total)
	fenceRaised := false
	for _, f := range h.Fences {
		fenceRaised = fenceRaised || f.On
	}
	// a raised write fence legitimately refuses new sends: the "every valid
	// send succeeds" clause needs a run without one
	v.strong = v.calm && !fenceRaised
	if v.calm {
		verifC29JudgeAckedRetries(h, v)
	}
	if v.strong {
		for _, rec := range h.Subs {
			if rec.SubmitErr != "" {
				v.fail("caller %d call %d sub %d: submit rejected (%s) in a fault-free unconstrained run", rec.Caller, rec.Call, rec.Sub, rec.SubmitErr)
				continue
			}
			for i, it := range rec.Items {
				if (it.Kind == verifC29KindKeyed || it.Kind == verifC29KindUnkeyed) && i < len(rec.Results) && !rec.Results[i].success() {
					v.fail("caller %d call %d sub %d item %d (%s/%s %q): failed with %+v in a fault-free unconstrained run (a retry must return the original result)", rec.Caller, rec.Call, rec.Sub, i, it.From, it.CNo, it.Payload, rec.Results[i])
				}
			}
		}
		for name, log := range h.Store {
			want := 0
			for l := range count {
				if l.ch == name {
					if l.cno == "" {
						want += count[l]
					} else {
						want++
					}
				}
			}
			if len(log) != want {
				v.fail("channel %s: %d records stored for %d distinct sends", name, len(log), want)
			}
		}
	}
	if h.Flags["late_submit_checked"] && !h.Flags["late_submit_rejected"] {
		v.fail("a submit after Stop returned nil was not rejected with ErrRouteNotReady")
	}
	if h.Flags["late_submit_checked"] && !h.Flags["second_stop_nil"] {
		v.fail("a second Stop after a completed Stop did not return nil")
	}
	return v
}

// verifC29RouteAttempts is the Router's bound on route attempts for items
// without a deadline (RouterOptions.MaxRouteAttempts left at its default).
const verifC29RouteAttempts = defaultRouterMaxRouteAttempts

// verifC29JudgeAckedRetries: in a run without injected fault, key conflict,
// reduced limit or early stop, a send whose original had already been
// acknowledged as a success before the retry was submitted returns a success
// again (clause 1 then ties it to the one stored row: the original id and
// sequence) -- also while the channel is write-fenced: "a target already
// observed as write-fenced performs the pre-append idempotency lookup so an
// earlier committed retry can still bypass the new-write fence" (FLOW.md;
// AuthorityTarget.WriteFenced). Unfenced, the store's duplicate-key rejection
// plus the recovery lookup returns it. Left out: a retry behind whose resolve
// the fence was raised as often as it has route attempts (SubmitLocal: one,
// Router: three) -- its appends can all run into the fence.
func verifC29JudgeAckedRetries(h *verifC29History, v *verifC29Verdict) {
	acked := map[verifC29Logical]int64{}
	for _, rec := range h.Subs {
		if rec.SubmitErr != "" || len(rec.Results) != len(rec.Items) {
			continue
		}
		for i, it := range rec.Items {
			if it.Kind != verifC29KindKeyed || !rec.Results[i].success() {
				continue
			}
			l := verifC29Logical{it.chanName(), it.From, it.CNo, it.Payload}
			if t, ok := acked[l]; !ok || rec.DoneTick < t {
				acked[l] = rec.DoneTick
			}
		}
	}
	for _, rec := range h.Subs {
		if rec.SubmitErr != "" {
			v.fail("caller %d call %d sub %d: submit rejected (%s) in a fault-free unconstrained run", rec.Caller, rec.Call, rec.Sub, rec.SubmitErr)
			continue
		}
		if len(rec.Results) != len(rec.Items) {
			continue
		}
		for i, it := range rec.Items {
			if it.Kind != verifC29KindKeyed {
				continue
			}
			t, ok := acked[verifC29Logical{it.chanName(), it.From, it.CNo, it.Payload}]
			if !ok || t >= rec.StartTick {
				continue
			}
			raised, fencedAtStart := 0, false
			for _, f := range h.Fences {
				if f.Channel != it.chanName() {
					continue
				}
				if f.Tick < rec.StartTick {
					fencedAtStart = f.On
				} else if f.On && f.Tick < rec.DoneTick {
					raised++
				}
			}
			attempts := verifC29RouteAttempts
			if rec.Mode == verifC29ModeLocal {
				attempts = 1
			}
			if raised >= attempts {
				continue
			}
			v.ackedRetries++
			if fencedAtStart {
				v.ackedRetriesFenced++
				if it.Sync {
					v.ackedRetriesSync++
				}
			}
			if !rec.Results[i].success() {
				v.fail("caller %d call %d sub %d item %d (%s %s/%s %q): the same send had been acknowledged as a success at tick %d, the retry submitted at tick %d (channel write-fenced: %v) got %+v instead of the original result", rec.Caller, rec.Call, rec.Sub, i, it.chanName(), it.From, it.CNo, it.Payload, t, rec.StartTick, fencedAtStart, rec.Results[i])
			}
		}
	}
}

// verifC29Overlap reports whether a duplicate send was submitted while an
// earlier submission of the same send had not yet returned (by logical ticks),
// or inside the same submission.
func verifC29Overlap(h *verifC29History) bool {
	type span struct{ start, end int64 }
	spans := map[verifC29Logical][]span{}
	for _, rec := range h.Subs {
		in := map[verifC29Logical]bool{}
		for _, it := range rec.Items {
			if it.Kind != verifC29KindKeyed {
				continue
			}
			l := verifC29Logical{it.chanName(), it.From, it.CNo, ""} // same key, any payload
			if in[l] {
				return true
			}
			in[l] = true
		}
		for l := range in {
			spans[l] = append(spans[l], span{rec.StartTick, rec.EndTick})
		}
	}
	for _, ss := range spans {
		for i := range ss {
			for j := i + 1; j < len(ss); j++ {
				if ss[i].start < ss[j].end && ss[j].start < ss[i].end {
					return true
				}
			}
		}
	}
	return false
}

// verifC29AcceptedDuringPrepare counts pipelined submissions that were accepted
// while the writer of their channel was inside the prepare of ANOTHER
// submission (an Authorizer call for one of its items was running) and an
// append of that channel was in flight -- the window in which the writer can
// neither start an append nor go idle.
func verifC29AcceptedDuringPrepare(h *verifC29History) int {
	n := 0
	for _, rec := range h.Subs {
		if rec.Mode != verifC29ModeLocal || rec.SubmitErr != "" || len(rec.Items) == 0 {
			continue
		}
		name := rec.Items[0].chanName()
		own := map[int]bool{}
		for _, it := range rec.Items {
			own[it.ID] = true
		}
		inPrepare := false
		for _, a := range h.AuthSpans {
			if a.Channel == name && !own[a.Item] && a.Start < rec.EndTick && rec.EndTick < a.End {
				inPrepare = true
				break
			}
		}
		if !inPrepare {
			continue
		}
		for _, c := range h.AppendCalls {
			if c.Channel == name && c.StartTik < rec.EndTick && rec.EndTick < c.EndTik {
				n++
				break
			}
		}
	}
	return n
}

func verifC29Describe(p verifC29Params) string {
	b, _ := json.Marshal(p)
	return string(b)
}

func verifC29Fail(rt *rapid.T, prop, test string, h *verifC29History, violations []string) {
	b, _ := json.MarshalIndent(map[string]any{"violations": violations, "history": h}, "", " ")
	path := kit.SaveReplay(prop, test, "json", b)
	rt.Fatalf("%s violated (recorded history: %s):\n  %s", prop, path, strings.Join(violations, "\n  "))
}

func TestVerifC29SendPipeline(t *testing.T) {
	verifC29CheckPipeline(t, false)
}

// TestVerifC29PipelinedBurst spends its cases on one shape of the same
// workload space: pipelined submissions to one or two channels arriving while
// the writer prepares an earlier batch (slow Authorizer / idempotency ports)
// and an append is in flight. Same runner, same oracle.
func TestVerifC29PipelinedBurst(t *testing.T) {
	verifC29CheckPipeline(t, true)
}

func verifC29CheckPipeline(t *testing.T, forceBurst bool) {
	col := kit.For(t, "C29")
	kit.Check(t, "C29", func(rt *rapid.T, k *kit.Case) {
		p := verifC29GenShape(rt, false, forceBurst)
		h := verifC29Run(p, false)
		if h.unjoined {
			fmt.Println("VERIF-MACHINERY: C29 harness could not join its goroutines")
			t.Fatalf("VERIF-MACHINERY: goroutines not joined")
		}
		v := verifC29Judge(h)
		if len(v.violations) > 0 {
			verifC29Fail(rt, "C29", t.Name(), h, v.violations)
		}
		if h.Hung != "" || h.FinalStop != "" {
			col.Inconclusive("deadline while busy")
			rt.Skip("inconclusive")
		}
		overlap := verifC29Overlap(h)
		if kit.Scale("C29_TIMING", 0, 0) == 1 {
			fmt.Printf("C29TIMING traffic=%d stop=%d early=%v short=%v appendCalls=%d subs=%d post=%v coalesce=%d limited=%v fenced=%v\n", h.TrafficUS, h.StopUS, p.StopAt >= 0, p.StopShort, len(h.AppendCalls), len(h.Subs), p.PostCommit, p.CoalesceUS, p.limited(), len(p.Fenced) > 0)
		}
		col.AddExtra("traffic_us", h.TrafficUS)
		col.AddExtra("final_stop_us", h.StopUS)
		k.Key(verifC29Describe(p))
		k.SetNonTrivial((overlap && (v.dupAcross || v.dupInBatch)) || (h.Flags["hidden_commit"] && h.Flags["recovery_hit"]))
		k.LabelIf(v.dupInBatch, "duplicate key inside one batch")
		k.LabelIf(v.dupAcross, "duplicate key across batches")
		k.LabelIf(overlap, "duplicate key racing its original")
		k.LabelIf(v.conflictItems, "key reused with different payload")
		k.LabelIf(v.retryHits > 0, "retry returned original result")
		k.LabelIf(h.Flags["hidden_commit"], "append committed but reported failure")
		k.LabelIf(h.Flags["recovery_hit"], "idempotency lookup hit")
		k.LabelIf(h.Flags["conflict_seen"], "store rejected duplicate key")
		k.LabelIf(h.Flags["lookup_errored"], "lookup error injected")
		k.LabelIf(v.busy > 0, "backpressure observed")
		k.LabelIf(v.strong, "fault-free unconstrained (strong oracle)")
		k.LabelIf(p.PostCommit, "post-commit port configured")
		k.LabelIf(len(h.Stops) > 1, "early stop")
		k.LabelIf(v.failures > 0, "some sends failed")
		k.LabelIf(v.calm && !v.strong, "fault-free unconstrained with a write fence raised")
		k.LabelIf(v.ackedRetries > 0, "acknowledged send retried (must return the original)")
		k.LabelIf(v.ackedRetriesFenced > 0, "acknowledged send retried while its channel was write-fenced")
		k.LabelIf(v.ackedRetriesSync > 0, "acknowledged sync_once send retried while its command channel was write-fenced")
		k.LabelIf(h.Flags["fence_rejected"], "append refused by the write fence")
		k.LabelIf(v.syncSuccess > 0, "sync_once send stored on its command channel")
		k.LabelIf(v.denied > 0, "send refused by the authorizer")
		k.LabelIf(v.hbPairs > 0, "submissions ordered by accept-before-submit")
		k.LabelIf(v.hbPairsCross > 0, "submissions of two callers ordered by accept-before-submit")
		k.LabelIf(verifC29AcceptedDuringPrepare(h) > 0, "submission accepted during another batch's prepare with an append in flight")
		k.Sample(func() any {
			return fmt.Sprintf("callers=%d channels=%d successes=%d failures=%d retryHits=%d appendCalls=%d", len(p.Callers), p.Channels, v.successes, v.failures, v.retryHits, len(h.AppendCalls))
		})
	})
}
