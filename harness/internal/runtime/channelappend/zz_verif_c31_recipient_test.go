package channelappend

// C31 — online delivery preserves per-channel order and recipient coverage
// (recipient.go side: selection -> exact-authority grouping -> bounded plans ->
// ownership transfer into the real Online Delivery runtime).
//
// One producer goroutine per channel plays the channel writer's post-commit
// effect (commitEffect.run / realtimeEffect.runItem): it calls
// dispatchCommittedRecipientsForTarget / dispatchRecipientsForTarget for the
// channel's committed messages in message_seq order, threading the subscriber
// cache exactly as commitEffect.run does. The delivery enqueuer is the REAL
// delivery.Runtime (as wired by internal/app: opts.OnlineDeliveryEnqueuer =
// a.onlineDelivery, no cloning adapter) behind a pass-through recorder that
// deep-copies each plan AT ADMISSION (the oracle's ground truth) and forwards
// the very same plan value. Presence / owner push / session writer / offline
// ports are recording fakes. A generated gate keeps presence resolution blocked
// until a generated number of plans has been admitted (never longer than the
// queue capacity allows), so that earlier plans of a message are still queued
// while later ones are packed. Judged after Stop returned nil.

import (
	"context"
	"encoding/json"
	"errors"
	"fmt"
	"runtime"
	"sort"
	"strconv"
	"strings"
	"sync"
	"sync/atomic"
	"testing"
	"time"

	"github.com/WuKongIM/WuKongIM/internal/contracts/authority"
	"github.com/WuKongIM/WuKongIM/internal/contracts/onlinedelivery"
	runtimedelivery "github.com/WuKongIM/WuKongIM/internal/runtime/delivery"
	runtimechannelid "github.com/WuKongIM/WuKongIM/pkg/protocol/channelid"
	"pgregory.net/rapid"
	"verif.local/kit"
)

const verifC31RLocalNode = uint64(1)

// ---- workload ----

type verifC31RSession struct {
	Owner   uint64 `json:"owner"`
	Session uint64 `json:"session"`
}

type verifC31RUser struct {
	UID      string             `json:"uid"`
	Target   int                `json:"target"` // index into Params.Targets
	Sessions []verifC31RSession `json:"sessions"`
}

type verifC31RMsg struct {
	ID          int               `json:"id"` // global, 1-based
	Channel     int               `json:"channel"`
	Seq         uint64            `json:"seq"` // 0 for transient (realtime) items
	Transient   bool              `json:"transient"`
	Scoped      []string          `json:"scoped,omitempty"`
	Subs        []string          `json:"subs,omitempty"` // subscriber list in effect (group channels)
	SubsVersion uint64            `json:"subs_version"`
	Sender      string            `json:"sender"`
	SenderSess  *verifC31RSession `json:"sender_session,omitempty"`
	FailUID     string            `json:"fail_uid,omitempty"` // authority lookup of this UID fails for this message
	Offline     []string          `json:"offline,omitempty"`  // recipients without any route for this message
	PresenceUS  int               `json:"presence_us"`
	PushUS      int               `json:"push_us"`
	PauseUS     int               `json:"pause_us"`
}

type verifC31RChannel struct {
	Person bool           `json:"person"`
	Pair   [2]string      `json:"pair"`
	Large  bool           `json:"large"`
	Msgs   []verifC31RMsg `json:"msgs"`
}

type verifC31RParams struct {
	Workers       int                `json:"workers"`
	QueueSize     int                `json:"queue_size"`
	BatchSize     int                `json:"batch_size"` // recipientBatchSize (0 = default)
	PageSize      int                `json:"page_size"`  // subscriberPageSize (0 = default)
	TrailingPage  bool               `json:"trailing_page"`
	OwnerConc     int                `json:"owner_conc"`
	PushBatch     int                `json:"push_batch"`
	BatchResolver bool               `json:"batch_resolver"`
	Targets       []authority.Target `json:"targets"`
	Users         []verifC31RUser    `json:"users"`
	Channels      []verifC31RChannel `json:"channels"`
	HoldPlans     int                `json:"hold_plans"` // presence stays blocked until this many plans were admitted; 0 = no gate
	StopAt        int                `json:"stop_at"`    // global enqueue index at which a patient Stop starts; -1 none
}

func (p *verifC31RParams) user(uid string) *verifC31RUser {
	for i := range p.Users {
		if p.Users[i].UID == uid {
			return &p.Users[i]
		}
	}
	return nil
}

func (p *verifC31RParams) batch() int { return boundedPositive(p.BatchSize, defaultRecipientBatchSize) }
func (p *verifC31RParams) page() int {
	return boundedPositive(p.PageSize, defaultSubscriberScanPageSize)
}

func verifC31RChannelID(p *verifC31RParams, ch int) ChannelID {
	c := p.Channels[ch]
	if c.Person {
		return ChannelID{ID: runtimechannelid.EncodePersonChannel(c.Pair[0], c.Pair[1]), Type: channelTypePerson}
	}
	return ChannelID{ID: fmt.Sprintf("g%d", ch), Type: 2}
}

// verifC31RSets returns the recipient sets (one per dispatchRecipientSet call)
// the documented selection rules produce for one message, in dispatch order.
func verifC31RSets(p *verifC31RParams, m *verifC31RMsg) [][]string {
	c := p.Channels[m.Channel]
	var sets [][]string
	switch {
	case len(m.Scoped) > 0:
		sets = [][]string{m.Scoped}
	case c.Person:
		left, right, _ := runtimechannelid.DecodePersonChannel(verifC31RChannelID(p, m.Channel).ID)
		sets = [][]string{{left, right}}
	case c.Large:
		for i := 0; i < len(m.Subs); i += p.page() {
			end := i + p.page()
			if end > len(m.Subs) {
				end = len(m.Subs)
			}
			sets = append(sets, m.Subs[i:end])
		}
	default:
		if len(m.Subs) > 0 {
			sets = [][]string{m.Subs}
		}
	}
	return sets
}

func verifC31RGen(rt *rapid.T) verifC31RParams {
	p := verifC31RParams{}
	p.Workers = rapid.IntRange(1, 4).Draw(rt, "workers")
	p.QueueSize = rapid.SampledFrom([]int{1, 2, 4, 16, 64}).Draw(rt, "queue")
	p.BatchSize = rapid.SampledFrom([]int{1, 2, 2, 3, 4, 0}).Draw(rt, "batch")
	p.PageSize = rapid.SampledFrom([]int{1, 2, 3, 5, 8, 0}).Draw(rt, "page")
	p.TrailingPage = rapid.Bool().Draw(rt, "trailingPage")
	p.OwnerConc = rapid.IntRange(1, 4).Draw(rt, "ownerConc")
	p.PushBatch = rapid.SampledFrom([]int{1, 2, 8, 256}).Draw(rt, "pushBatch")
	p.BatchResolver = rapid.Bool().Draw(rt, "batchResolver")
	nT := rapid.IntRange(1, 4).Draw(rt, "targets")
	for i := 0; i < nT; i++ {
		p.Targets = append(p.Targets, authority.Target{
			HashSlot: uint16(rapid.SampledFrom([]int{0, 1, 1, 300}).Draw(rt, "hashSlot")), SlotID: uint32(i + 1),
			LeaderNodeID: uint64(rapid.IntRange(1, 3).Draw(rt, "leader")), LeaderTerm: uint64(rapid.IntRange(1, 2).Draw(rt, "term")),
			ConfigEpoch: 3, RouteRevision: 5,
		})
	}
	nUsers := rapid.IntRange(2, 12).Draw(rt, "users")
	nextSession := uint64(10)
	var uids []string
	for i := 0; i < nUsers; i++ {
		u := verifC31RUser{UID: fmt.Sprintf("u%d", i), Target: rapid.IntRange(0, nT-1).Draw(rt, "userTarget")}
		n := rapid.SampledFrom([]int{0, 1, 1, 1, 2}).Draw(rt, "userSessions")
		for j := 0; j < n; j++ {
			nextSession++
			u.Sessions = append(u.Sessions, verifC31RSession{Owner: uint64(rapid.IntRange(1, 3).Draw(rt, "owner")), Session: nextSession})
		}
		p.Users = append(p.Users, u)
		uids = append(uids, u.UID)
	}
	slowPct := rapid.SampledFrom([]int{0, 20, 50}).Draw(rt, "slowPct")
	faulty := rapid.IntRange(0, 2).Draw(rt, "faulty") == 1
	nCh := rapid.IntRange(1, 3).Draw(rt, "channels")
	msgID := 0
	usedPairs := map[string]bool{}
	for ch := 0; ch < nCh; ch++ {
		c := verifC31RChannel{}
		switch rapid.IntRange(0, 4).Draw(rt, "channelKind") {
		case 0:
			c.Person = true
			a := rapid.IntRange(0, nUsers-1).Draw(rt, "personA")
			b := rapid.IntRange(0, nUsers-2).Draw(rt, "personB")
			if b >= a {
				b++
			}
			c.Pair = [2]string{uids[a], uids[b]}
			// one channel = one producer: a second channel over the same pair would be the same channel id
			if id := runtimechannelid.EncodePersonChannel(c.Pair[0], c.Pair[1]); usedPairs[id] {
				c = verifC31RChannel{Large: true}
			} else {
				usedPairs[id] = true
			}
		case 1, 2:
			c.Large = true
		}
		p.Channels = append(p.Channels, c)
		var subs []string
		version := uint64(1)
		if !c.Person {
			for _, u := range uids {
				if rapid.IntRange(0, 3).Draw(rt, "isSubscriber") > 0 {
					subs = append(subs, u)
				}
			}
		}
		nMsgs := rapid.IntRange(1, 4).Draw(rt, "messages")
		seq := uint64(0)
		for k := 0; k < nMsgs; k++ {
			msgID++
			m := verifC31RMsg{ID: msgID, Channel: ch}
			if !c.Person && k > 0 && rapid.IntRange(0, 3).Draw(rt, "subsChange") == 0 {
				u := uids[rapid.IntRange(0, nUsers-1).Draw(rt, "subsToggle")]
				next := make([]string, 0, len(subs)+1)
				found := false
				for _, s := range subs {
					if s == u {
						found = true
						continue
					}
					next = append(next, s)
				}
				if !found {
					next = append(next, u)
				}
				subs = next
				version++
			}
			m.Subs = append([]string(nil), subs...)
			m.SubsVersion = version
			m.Transient = rapid.IntRange(0, 5).Draw(rt, "transient") == 0
			if !m.Transient {
				seq++
				m.Seq = seq
			}
			if rapid.IntRange(0, 4).Draw(rt, "scoped") == 0 {
				for _, u := range uids {
					if rapid.IntRange(0, 1).Draw(rt, "inScope") == 0 {
						m.Scoped = append(m.Scoped, u)
					}
				}
			}
			m.Sender = "sys"
			if c.Person {
				m.Sender = c.Pair[rapid.IntRange(0, 1).Draw(rt, "personSender")]
			} else if rapid.IntRange(0, 2).Draw(rt, "senderIsUser") > 0 {
				m.Sender = uids[rapid.IntRange(0, nUsers-1).Draw(rt, "sender")]
			}
			if su := p.user(m.Sender); su != nil && len(su.Sessions) > 0 && rapid.IntRange(0, 2).Draw(rt, "senderOnline") > 0 {
				s := su.Sessions[rapid.IntRange(0, len(su.Sessions)-1).Draw(rt, "senderSession")]
				m.SenderSess = &s
			}
			var all []string
			for _, set := range verifC31RSets(&p, &m) {
				all = append(all, set...)
			}
			for _, u := range all {
				if rapid.IntRange(0, 99).Draw(rt, "churn") < 10 {
					m.Offline = append(m.Offline, u)
				}
			}
			// (rapid favours the ends of a range: the rare outcomes sit in the middle)
			if len(all) > 0 && faulty && rapid.IntRange(0, 9).Draw(rt, "resolveFault") == 5 {
				m.FailUID = all[rapid.IntRange(0, len(all)-1).Draw(rt, "failUID")]
			}
			if rapid.IntRange(0, 99).Draw(rt, "presenceSlow") < slowPct {
				m.PresenceUS = rapid.IntRange(1, 400).Draw(rt, "presenceUS")
			}
			if rapid.IntRange(0, 99).Draw(rt, "pushSlow") < slowPct {
				m.PushUS = rapid.IntRange(1, 200).Draw(rt, "pushUS")
			}
			if rapid.IntRange(0, 4).Draw(rt, "pause") == 0 {
				m.PauseUS = rapid.IntRange(1, 300).Draw(rt, "pauseUS")
			}
			p.Channels[ch].Msgs = append(p.Channels[ch].Msgs, m)
		}
	}
	if rapid.IntRange(0, 2).Draw(rt, "gate") > 0 {
		p.HoldPlans = rapid.IntRange(1, 24).Draw(rt, "holdPlans")
	}
	p.StopAt = -1
	if rapid.IntRange(0, 9).Draw(rt, "stopRoll") == 4 {
		p.StopAt = rapid.IntRange(0, 12).Draw(rt, "stopAt")
	}
	return p
}

// ---- recorded history ----

type verifC31RBatch struct {
	Target authority.Target `json:"target"`
	UIDs   []string         `json:"uids"`
}

func verifC31RSnapshot(targets []onlinedelivery.RecipientTargetBatch) []verifC31RBatch {
	out := make([]verifC31RBatch, 0, len(targets))
	for _, t := range targets {
		b := verifC31RBatch{Target: t.Target}
		for _, r := range t.Recipients {
			b.UIDs = append(b.UIDs, r.UID)
		}
		out = append(out, b)
	}
	return out
}

func verifC31RSig(bs []verifC31RBatch) string {
	var sb strings.Builder
	for _, b := range bs {
		fmt.Fprintf(&sb, "[%d/%d/%d/%d/%d/%d/%d:%s]", b.Target.HashSlot, b.Target.SlotID, b.Target.LeaderNodeID, b.Target.LeaderTerm, b.Target.ConfigEpoch, b.Target.RouteRevision, b.Target.AuthorityEpoch, strings.Join(b.UIDs, ","))
	}
	return sb.String()
}

type verifC31RAdmission struct {
	Msg           int              `json:"msg"`
	Durable       bool             `json:"durable"`
	MessageID     uint64           `json:"message_id"`
	Seq           uint64           `json:"seq"`
	Channel       string           `json:"channel"`
	ChannelType   uint8            `json:"channel_type"`
	Plan          []verifC31RBatch `json:"plan"` // deep copy taken at admission
	Tick          int64            `json:"tick"`
	EarlierQueued bool             `json:"earlier_queued"` // an earlier accepted plan of this message had not reached presence yet
	Err           string           `json:"err,omitempty"`
	Closed        bool             `json:"closed"`
}

type verifC31RPresenceCall struct {
	Msg  int              `json:"msg"`
	Seen []verifC31RBatch `json:"seen"`
	Tick int64            `json:"tick"`
}

type verifC31RPush struct {
	Msg       int    `json:"msg"`
	Route     string `json:"route"`
	Owner     uint64 `json:"owner"`
	Local     bool   `json:"local"`
	Tick      int64  `json:"tick"`
	Channel   string `json:"channel"`
	Seq       uint64 `json:"seq"`
	MessageID uint64 `json:"message_id"`
	CtxErr    string `json:"ctx_err,omitempty"`
}

type verifC31ROffline struct {
	Msg  int      `json:"msg"`
	UIDs []string `json:"uids"`
	Tick int64    `json:"tick"`
}

type verifC31RDispatch struct {
	Msg    int    `json:"msg"`
	Err    string `json:"err,omitempty"`
	Closed bool   `json:"closed"`
	Cached bool   `json:"cached"` // the subscriber cache carried by the producer matched
}

type verifC31RHistory struct {
	Params     verifC31RParams         `json:"params"`
	Dispatches []verifC31RDispatch     `json:"dispatches"`
	Admissions []verifC31RAdmission    `json:"admissions"`
	Presence   []verifC31RPresenceCall `json:"presence"`
	Pushes     []verifC31RPush         `json:"pushes"`
	Offline    []verifC31ROffline      `json:"offline"`
	StopBegun  bool                    `json:"stop_begun"`
	StopErr    string                  `json:"stop_err,omitempty"`
	GateHeld   int                     `json:"gate_held"` // plans admitted while the gate was still closed
	Hung       string                  `json:"hung,omitempty"`
	unjoined   bool
}

type verifC31RWorld struct {
	p    *verifC31RParams
	msgs map[int]*verifC31RMsg
	real *runtimedelivery.Runtime

	clock       atomic.Int64
	enqStarted  atomic.Int64
	presStarted atomic.Int64
	accepted    atomic.Int64
	gate        chan struct{}
	gateOnce    sync.Once
	gateOpen    atomic.Bool
	onEnqueue   func(index int64)

	mu          sync.Mutex
	admissions  []verifC31RAdmission
	presence    []verifC31RPresenceCall
	pushes      []verifC31RPush
	offline     []verifC31ROffline
	acceptedMsg map[int]int
	presMsg     map[int]int
	gateHeld    int
}

func (w *verifC31RWorld) openGate() {
	w.gateOnce.Do(func() {
		w.gateOpen.Store(true)
		if w.gate != nil {
			close(w.gate)
		}
	})
}

func verifC31RSleep(us int) {
	if us <= 0 {
		return
	}
	if us < 30 {
		runtime.Gosched()
		return
	}
	time.Sleep(time.Duration(us) * time.Microsecond)
}

func verifC31RMsgOf(ev CommittedEnvelope) int {
	id, err := strconv.Atoi(strings.TrimPrefix(ev.ClientMsgNo, "m-"))
	if err != nil {
		return -1
	}
	return id
}

func verifC31RRoute(uid string, s verifC31RSession) onlinedelivery.Route {
	return onlinedelivery.Route{UID: uid, OwnerNodeID: s.Owner, OwnerBootID: 7 + s.Owner, OwnerSeq: s.Session + 100, SessionID: s.Session, DeviceID: "d" + uid}
}

func verifC31RRouteKey(r onlinedelivery.Route) string {
	return fmt.Sprintf("%s@%d/%d/%d/%d/%s", r.UID, r.OwnerNodeID, r.OwnerBootID, r.OwnerSeq, r.SessionID, r.DeviceID)
}

// enqueuer: pass-through recorder in front of the real runtime.
type verifC31REnqueuer struct{ w *verifC31RWorld }

func (e verifC31REnqueuer) EnqueueRecipientDeliveryPlan(ctx context.Context, plan onlinedelivery.RecipientDeliveryPlan) error {
	w := e.w
	msg := verifC31RMsgOf(plan.Event)
	rec := verifC31RAdmission{
		Msg: msg, Durable: plan.Mode == onlinedelivery.ModeDurable, MessageID: plan.Event.MessageID, Seq: plan.Event.MessageSeq,
		Channel: plan.Event.ChannelID, ChannelType: plan.Event.ChannelType, Plan: verifC31RSnapshot(plan.Targets),
	}
	w.mu.Lock()
	rec.EarlierQueued = w.presMsg[msg] < w.acceptedMsg[msg]
	w.mu.Unlock()
	n := w.enqStarted.Add(1)
	if w.onEnqueue != nil {
		w.onEnqueue(n - 1)
	}
	// never let a producer wait for a queue slot that only a gated worker can free
	if n-w.presStarted.Load() > int64(w.p.QueueSize) {
		w.openGate()
	}
	rec.Tick = w.clock.Add(1)
	held := !w.gateOpen.Load()
	err := w.real.EnqueueRecipientDeliveryPlan(ctx, plan) // the same plan value: ownership transfer, no clone
	if err != nil {
		rec.Err = err.Error()
		rec.Closed = errors.Is(err, runtimedelivery.ErrRuntimeClosed)
	}
	w.mu.Lock()
	if err == nil {
		w.acceptedMsg[msg]++
		if held {
			w.gateHeld++
		}
	}
	w.admissions = append(w.admissions, rec)
	w.mu.Unlock()
	if err == nil && w.accepted.Add(1) >= int64(w.p.HoldPlans) {
		w.openGate()
	}
	return err
}

type verifC31RPresence struct{ w *verifC31RWorld }

func (f verifC31RPresence) EndpointsByTargets(_ context.Context, targets []onlinedelivery.RecipientTargetBatch) []runtimedelivery.TargetPresenceResult {
	w := f.w
	seen := verifC31RSnapshot(targets) // what a presence adapter reads when it builds its lookups
	msg := -1
	if len(seen) > 0 {
		msg = int(seen[0].Target.AuthorityEpoch)
	}
	w.presStarted.Add(1)
	w.mu.Lock()
	w.presMsg[msg]++
	w.presence = append(w.presence, verifC31RPresenceCall{Msg: msg, Seen: seen, Tick: w.clock.Add(1)})
	w.mu.Unlock()
	if w.gate != nil {
		<-w.gate
	}
	m := w.msgs[msg]
	if m != nil {
		verifC31RSleep(m.PresenceUS)
	}
	out := make([]runtimedelivery.TargetPresenceResult, len(targets))
	off := map[string]bool{}
	if m != nil {
		for _, u := range m.Offline {
			off[u] = true
		}
	}
	for i, b := range seen {
		for _, uid := range b.UIDs {
			u := w.p.user(uid)
			if u == nil || off[uid] {
				continue
			}
			for _, s := range u.Sessions {
				out[i].Routes = append(out[i].Routes, verifC31RRoute(uid, s))
			}
		}
	}
	return out
}

func (w *verifC31RWorld) push(ctx context.Context, ev CommittedEnvelope, r onlinedelivery.Route, owner uint64, local bool) {
	rec := verifC31RPush{Msg: verifC31RMsgOf(ev), Route: verifC31RRouteKey(r), Owner: owner, Local: local, Channel: ev.ChannelID, Seq: ev.MessageSeq, MessageID: ev.MessageID}
	if ctx.Err() != nil {
		rec.CtxErr = ctx.Err().Error()
	}
	w.mu.Lock()
	rec.Tick = w.clock.Add(1)
	w.pushes = append(w.pushes, rec)
	w.mu.Unlock()
	if m := w.msgs[rec.Msg]; m != nil {
		verifC31RSleep(m.PushUS)
	}
}

type verifC31RRemote struct{ w *verifC31RWorld }

func (f verifC31RRemote) PushOwner(ctx context.Context, push onlinedelivery.OwnerPush) (onlinedelivery.OwnerPushResult, error) {
	var res onlinedelivery.OwnerPushResult
	for _, r := range push.Routes {
		f.w.push(ctx, push.Event, r, push.OwnerNodeID, false)
		res.Accepted = append(res.Accepted, r)
	}
	return res, nil
}

type verifC31RWriter struct{ w *verifC31RWorld }

func (f verifC31RWriter) WriteSession(ctx context.Context, write runtimedelivery.LocalSessionWrite) runtimedelivery.SessionWriteResult {
	f.w.push(ctx, write.Event, write.Route, write.Route.OwnerNodeID, true)
	return runtimedelivery.SessionWriteResult{Disposition: runtimedelivery.SessionWriteAccepted}
}

type verifC31ROfflineObs struct{ w *verifC31RWorld }

func (f verifC31ROfflineObs) ObserveOfflineRecipients(_ context.Context, ev runtimedelivery.OfflineRecipientsEvent) {
	w := f.w
	w.mu.Lock()
	w.offline = append(w.offline, verifC31ROffline{Msg: verifC31RMsgOf(ev.Event), UIDs: append([]string(nil), ev.UIDs...), Tick: w.clock.Add(1)})
	w.mu.Unlock()
}

// per-message authority resolver: the target of a UID is fixed by the case; the
// AuthorityEpoch (a local observation sequence, not a fence) carries the message
// id so that the presence port can tell which message a plan belongs to.
type verifC31RResolver struct {
	p *verifC31RParams
	m *verifC31RMsg
}

func (r verifC31RResolver) target(uid string) (RecipientAuthorityTarget, error) {
	if uid == r.m.FailUID {
		return RecipientAuthorityTarget{}, fmt.Errorf("verif: authority of %s unavailable: %w", uid, ErrRouteNotReady)
	}
	u := r.p.user(uid)
	if u == nil {
		return RecipientAuthorityTarget{}, fmt.Errorf("verif: unknown uid %q: %w", uid, ErrRouteNotReady)
	}
	t := r.p.Targets[u.Target]
	t.AuthorityEpoch = uint64(r.m.ID)
	return t, nil
}

func (r verifC31RResolver) ResolveRecipientAuthority(_ context.Context, uid string) (RecipientAuthorityTarget, error) {
	return r.target(uid)
}

type verifC31RBatchResolver struct{ verifC31RResolver }

func (r verifC31RBatchResolver) ResolveRecipientAuthorities(_ context.Context, uids []string) ([]RecipientAuthorityResult, error) {
	out := make([]RecipientAuthorityResult, len(uids))
	for i, uid := range uids {
		out[i].Target, out[i].Err = r.target(uid)
	}
	return out, nil
}

type verifC31RSubscribers struct {
	p *verifC31RParams
	m *verifC31RMsg
}

func (s verifC31RSubscribers) NextSubscriberPage(_ context.Context, req SubscriberPageRequest) (SubscriberPage, error) {
	start := 0
	if req.Cursor != "" {
		n, err := strconv.Atoi(req.Cursor)
		if err != nil || n < 0 || n > len(s.m.Subs) {
			return SubscriberPage{}, ErrInvalidSubscriberCursor
		}
		start = n
	}
	end := start + req.Limit
	if req.Limit <= 0 || end > len(s.m.Subs) || end < start {
		end = len(s.m.Subs)
	}
	page := SubscriberPage{Cursor: strconv.Itoa(end)}
	for _, u := range s.m.Subs[start:end] {
		page.Recipients = append(page.Recipients, Recipient{UID: u, JoinSeq: 1})
	}
	// a store may or may not know that a full page was the last one
	page.Done = end >= len(s.m.Subs) && !(s.p.TrailingPage && end > start && req.Limit < subscriberSnapshotLoadLimit && end-start == req.Limit)
	return page, nil
}

func verifC31RWait() time.Duration {
	return time.Duration(kit.Scale("C31_WAIT_S", 30, 60)) * time.Second
}

func verifC31RRun(p verifC31RParams) *verifC31RHistory {
	w := &verifC31RWorld{p: &p, msgs: map[int]*verifC31RMsg{}, acceptedMsg: map[int]int{}, presMsg: map[int]int{}}
	for ch := range p.Channels {
		for i := range p.Channels[ch].Msgs {
			w.msgs[p.Channels[ch].Msgs[i].ID] = &p.Channels[ch].Msgs[i]
		}
	}
	if p.HoldPlans > 0 {
		w.gate = make(chan struct{})
	} else {
		w.openGate()
	}
	h := &verifC31RHistory{Params: p}
	w.real = runtimedelivery.NewRuntime(runtimedelivery.RuntimeOptions{
		LocalNodeID: verifC31RLocalNode, Presence: verifC31RPresence{w}, RemoteOwnerPusher: verifC31RRemote{w}, SessionWriter: verifC31RWriter{w},
		OfflineRecipientsObserver: verifC31ROfflineObs{w}, QueueSize: p.QueueSize, Workers: p.Workers, PlanTimeout: 10 * time.Minute,
		OwnerPushBatchSize: p.PushBatch, OwnerConcurrency: p.OwnerConc, RetryMaxAttempts: 1,
	})
	if err := w.real.Start(context.Background()); err != nil {
		h.Hung = "setup: " + err.Error()
		return h
	}
	caseCtx, cancelCase := context.WithCancel(context.Background())
	defer cancelCase()
	var histMu sync.Mutex
	var producers, all sync.WaitGroup
	var stopOnce sync.Once
	var stopBegun atomic.Bool
	w.onEnqueue = func(index int64) {
		if p.StopAt < 0 || index != int64(p.StopAt) {
			return
		}
		stopOnce.Do(func() {
			stopBegun.Store(true)
			all.Add(1)
			go func() {
				defer all.Done()
				ctx, cancel := context.WithTimeout(caseCtx, verifC31RWait())
				err := w.real.Stop(ctx)
				cancel()
				if err != nil {
					histMu.Lock()
					h.StopErr = err.Error()
					histMu.Unlock()
				}
			}()
		})
	}
	for ch := range p.Channels {
		producers.Add(1)
		all.Add(1)
		go func(ch int) {
			defer all.Done()
			defer producers.Done()
			c := p.Channels[ch]
			id := verifC31RChannelID(&p, ch)
			var cache subscriberCache
			for i := range c.Msgs {
				m := &p.Channels[ch].Msgs[i]
				verifC31RSleep(m.PauseUS)
				base := verifC31RResolver{p: &p, m: m}
				ports := commitPorts{
					subscribers: verifC31RSubscribers{p: &p, m: m}, recipientAuthorityResolver: base, deliveryEnqueuer: verifC31REnqueuer{w},
					subscriberPageSize: p.PageSize, recipientBatchSize: p.BatchSize,
				}
				if p.BatchResolver {
					ports.recipientAuthorityResolver = verifC31RBatchResolver{base}
				}
				target := AuthorityTarget{ChannelID: id, ChannelKey: id.ID, LeaderNodeID: verifC31RLocalNode, Epoch: 1, LeaderEpoch: 1, RouteGeneration: 1, Large: c.Large, SubscriberMutationVersion: m.SubsVersion}
				ev := CommittedEnvelope{
					MessageID: uint64(1000 + m.ID), MessageSeq: m.Seq, ChannelID: id.ID, ChannelType: id.Type, FromUID: m.Sender,
					ClientMsgNo: fmt.Sprintf("m-%d", m.ID), Payload: []byte("x"), MessageScopedUIDs: append([]string(nil), m.Scoped...),
				}
				if m.SenderSess != nil {
					ev.SenderNodeID, ev.SenderSessionID = m.SenderSess.Owner, m.SenderSess.Session
				}
				rec := verifC31RDispatch{Msg: m.ID}
				var err error
				if m.Transient {
					// realtimeEffect.runItem
					_, err = dispatchRecipientsForTarget(caseCtx, onlinedelivery.ModeTransient, target, ev, subscriberCache{}, ports)
				} else {
					// commitEffect.run
					rec.Cached = len(m.Scoped) == 0 && !c.Person && cache.matches(target)
					var res recipientDispatchResult
					res, err = dispatchCommittedRecipientsForTarget(caseCtx, target, ev, cache, ports)
					if err == nil {
						cache = res.subscriberCache
					}
				}
				if err != nil {
					rec.Err = err.Error()
					rec.Closed = errors.Is(err, runtimedelivery.ErrRuntimeClosed)
				}
				histMu.Lock()
				h.Dispatches = append(h.Dispatches, rec)
				histMu.Unlock()
			}
		}(ch)
	}
	all.Add(1)
	go func() { defer all.Done(); producers.Wait(); w.openGate() }()
	joined := make(chan struct{})
	go func() { all.Wait(); close(joined) }()
	waitJoin := func() bool {
		timer := time.NewTimer(verifC31RWait())
		defer timer.Stop()
		select {
		case <-joined:
			return true
		case <-timer.C:
			return false
		}
	}
	if !waitJoin() {
		h.Hung = "producers or early stop did not finish in time"
		w.openGate()
		cancelCase()
		if !waitJoin() {
			h.unjoined = true
			return h
		}
	}
	w.openGate()
	if h.Hung == "" {
		ctx, cancel := context.WithTimeout(context.Background(), verifC31RWait())
		err := w.real.Stop(ctx)
		cancel()
		if err != nil {
			h.Hung = "final stop: " + err.Error()
		}
	}
	if h.Hung != "" {
		ctx, cancel := context.WithDeadline(context.Background(), time.Now().Add(-time.Second))
		_ = w.real.Stop(ctx)
		cancel()
	}
	h.StopBegun = stopBegun.Load()
	w.mu.Lock()
	h.Admissions, h.Presence, h.Pushes, h.Offline, h.GateHeld = w.admissions, w.presence, w.pushes, w.offline, w.gateHeld
	w.mu.Unlock()
	sort.SliceStable(h.Dispatches, func(i, j int) bool { return h.Dispatches[i].Msg < h.Dispatches[j].Msg })
	return h
}

// ---- oracle ----

type verifC31RVerdict struct {
	violations    []string
	multiPlanSets int  // recipient sets packed into >= 2 plans
	earlierQueued bool // NT: a later plan of a multi-plan set was admitted while an earlier plan of the message had not reached presence
	threePlans    bool
	multiTarget   bool
	splitTarget   bool // one authority group continued in the next plan
	pagedMsg      bool
	cacheHit      bool
	person        bool
	scoped        bool
	transient     bool
	resolveFail   bool
	rejected      int
	accepted      int
	pushes        int
	offlineSeen   bool
	offlineEarly  bool // an offline recipient sat in a plan that was not the last of its message
	suppressed    bool
}

func (v *verifC31RVerdict) fail(format string, args ...any) {
	if len(v.violations) < 12 {
		v.violations = append(v.violations, fmt.Sprintf(format, args...))
	}
}

func verifC31RJudge(h *verifC31RHistory) *verifC31RVerdict {
	v := &verifC31RVerdict{}
	if h.Hung != "" {
		return v
	}
	p := &h.Params
	if h.StopErr != "" {
		v.fail("patient early Stop returned %s", h.StopErr)
	}
	dispatch := map[int]verifC31RDispatch{}
	for _, d := range h.Dispatches {
		dispatch[d.Msg] = d
	}
	admByMsg := map[int][]verifC31RAdmission{}
	for _, a := range h.Admissions {
		admByMsg[a.Msg] = append(admByMsg[a.Msg], a)
	}
	presByMsg := map[int][]verifC31RPresenceCall{}
	for _, c := range h.Presence {
		presByMsg[c.Msg] = append(presByMsg[c.Msg], c)
	}
	pushByMsg := map[int][]verifC31RPush{}
	for _, a := range h.Pushes {
		pushByMsg[a.Msg] = append(pushByMsg[a.Msg], a)
		v.pushes++
		if a.CtxErr != "" {
			v.fail("message %d: push to %s ran with a cancelled context (%s)", a.Msg, a.Route, a.CtxErr)
		}
	}
	offByMsg := map[int][]verifC31ROffline{}
	for _, o := range h.Offline {
		offByMsg[o.Msg] = append(offByMsg[o.Msg], o)
		v.offlineSeen = true
	}
	known := map[int]bool{}
	for ch := range p.Channels {
		c := p.Channels[ch]
		id := verifC31RChannelID(p, ch)
		for i := range c.Msgs {
			m := &c.Msgs[i]
			known[m.ID] = true
			d, dispatched := dispatch[m.ID]
			sets := verifC31RSets(p, m)
			v.person = v.person || (c.Person && len(m.Scoped) == 0)
			v.scoped = v.scoped || len(m.Scoped) > 0
			v.transient = v.transient || m.Transient
			v.pagedMsg = v.pagedMsg || (c.Large && len(m.Scoped) == 0 && len(sets) >= 2)
			v.cacheHit = v.cacheHit || d.Cached
			failIdx := -1
			for si, set := range sets {
				for _, u := range set {
					if u == m.FailUID && failIdx < 0 {
						failIdx = si
					}
				}
			}
			v.resolveFail = v.resolveFail || failIdx >= 0
			if !dispatched {
				v.fail("message %d was never dispatched by the harness", m.ID)
				continue
			}
			// dispatch result: an error needs a cause the case contains
			switch {
			case d.Err == "" && failIdx >= 0:
				v.fail("message %d: authority lookup of %s failed but the dispatch reported success", m.ID, m.FailUID)
			case d.Err != "" && failIdx < 0 && !(d.Closed && h.StopBegun):
				v.fail("message %d: dispatch failed with %q although every lookup succeeded and the runtime was open", m.ID, d.Err)
			}
			// ---- the plans as admitted ----
			wantTarget := func(uid string) authority.Target {
				t := p.Targets[p.user(uid).Target]
				t.AuthorityEpoch = uint64(m.ID)
				return t
			}
			admitted := map[string]int{}
			var acceptedPlans []verifC31RAdmission
			lastPlanOf := map[string]int{}
			for _, a := range admByMsg[m.ID] {
				n := 0
				if a.MessageID != uint64(1000+m.ID) || a.Seq != m.Seq || a.Channel != id.ID || a.ChannelType != id.Type || a.Durable == m.Transient {
					v.fail("message %d: a plan carries event (%s/%d seq %d id %d durable=%v), the message is (%s/%d seq %d id %d durable=%v)", m.ID, a.Channel, a.ChannelType, a.Seq, a.MessageID, a.Durable, id.ID, id.Type, m.Seq, 1000+m.ID, !m.Transient)
				}
				for _, b := range a.Plan {
					if len(b.UIDs) == 0 {
						v.fail("message %d: a plan carries an empty target window", m.ID)
					}
					for _, u := range b.UIDs {
						n++
						if p.user(u) == nil {
							v.fail("message %d: plan names %q, which is no user", m.ID, u)
							continue
						}
						if b.Target != wantTarget(u) {
							v.fail("message %d: recipient %s packed under authority target %+v, its exact resolved target is %+v", m.ID, u, b.Target, wantTarget(u))
						}
					}
				}
				if n == 0 || n > p.batch() {
					v.fail("message %d: a plan carries %d recipients (bounded plans hold 1..%d)", m.ID, n, p.batch())
				}
				if a.Err != "" {
					v.rejected++
					if !(a.Closed && h.StopBegun) {
						v.fail("message %d: enqueue failed with %q (only ErrRuntimeClosed after a Stop began is expected)", m.ID, a.Err)
					}
					continue
				}
				v.accepted++
				v.multiTarget = v.multiTarget || len(a.Plan) >= 2
				if k := len(acceptedPlans); k > 0 {
					prev := acceptedPlans[k-1].Plan
					if len(prev) > 0 && len(a.Plan) > 0 && prev[len(prev)-1].Target == a.Plan[0].Target {
						v.splitTarget = true
					}
				}
				for _, b := range a.Plan {
					for _, u := range b.UIDs {
						admitted[u]++
						lastPlanOf[u] = len(acceptedPlans)
					}
				}
				acceptedPlans = append(acceptedPlans, a)
			}
			// completeness of the packing: every selected recipient in exactly one admitted plan
			want := map[string]int{}
			complete := d.Err == ""
			upto := len(sets)
			if d.Err != "" && failIdx >= 0 && !h.StopBegun {
				complete, upto = true, failIdx // sets before the failing one were dispatched in full, the failing one not at all
			}
			for _, set := range sets[:upto] {
				for _, u := range set {
					want[u]++
				}
			}
			all := map[string]bool{}
			for _, set := range sets {
				for _, u := range set {
					all[u] = true
				}
			}
			for u, n := range admitted {
				if !all[u] {
					v.fail("message %d: %s was packed into a plan but is no selected recipient of the message", m.ID, u)
				}
				if n > 1 {
					v.fail("message %d: recipient %s was packed into %d admitted plans", m.ID, u, n)
				}
				if complete && want[u] == 0 && all[u] {
					v.fail("message %d: recipient %s was admitted although its recipient set failed authority resolution", m.ID, u)
				}
			}
			if complete {
				for u := range want {
					if admitted[u] == 0 {
						v.fail("message %d: selected recipient %s is in no admitted plan although the dispatch of its set succeeded", m.ID, u)
					}
				}
			}
			// measured: how many admitted plans each recipient set was packed into
			setOf := map[string]int{}
			for si, set := range sets {
				plansOfSet := map[int]bool{}
				for _, u := range set {
					setOf[u] = si
					if admitted[u] > 0 {
						plansOfSet[lastPlanOf[u]] = true
					}
				}
				if len(plansOfSet) >= 2 {
					v.multiPlanSets++
				}
				if len(plansOfSet) >= 3 {
					v.threePlans = true
				}
			}
			planSet := func(a verifC31RAdmission) int {
				if len(a.Plan) > 0 && len(a.Plan[0].UIDs) > 0 {
					if si, ok := setOf[a.Plan[0].UIDs[0]]; ok {
						return si
					}
				}
				return -1
			}
			for k, a := range acceptedPlans {
				if k > 0 && a.EarlierQueued && planSet(a) >= 0 && planSet(a) == planSet(acceptedPlans[k-1]) {
					v.earlierQueued = true
				}
			}
			// ---- every admitted plan is resolved once, FIFO, with the recipients it was admitted with ----
			calls := presByMsg[m.ID]
			if len(calls) != len(acceptedPlans) {
				v.fail("message %d: %d plans were admitted but presence was resolved %d times by the time Stop returned nil", m.ID, len(acceptedPlans), len(calls))
			}
			for k := 0; k < len(calls) && k < len(acceptedPlans); k++ {
				if got, want := verifC31RSig(calls[k].Seen), verifC31RSig(acceptedPlans[k].Plan); got != want {
					v.fail("message %d: plan #%d was admitted as %s but reached presence resolution as %s (an admitted plan is owned by Online Delivery and must not change)", m.ID, k, want, got)
				}
			}
			// ---- outcome: pushed to its online routes xor reported offline, once ----
			off := map[string]bool{}
			for _, u := range m.Offline {
				off[u] = true
			}
			wantRoutes := map[string]bool{}
			wantOffline := map[string]bool{}
			for u := range admitted {
				usr := p.user(u)
				if usr == nil {
					continue
				}
				if off[u] || len(usr.Sessions) == 0 {
					wantOffline[u] = true
					if !m.Transient && lastPlanOf[u] < len(acceptedPlans)-1 {
						v.offlineEarly = true
					}
					continue
				}
				for _, s := range usr.Sessions {
					if m.SenderSess != nil && m.Sender == u && m.SenderSess.Session == s.Session && m.SenderSess.Owner == s.Owner {
						v.suppressed = true
						continue
					}
					wantRoutes[verifC31RRouteKey(verifC31RRoute(u, s))] = true
				}
			}
			gotRoutes := map[string]int{}
			for _, a := range pushByMsg[m.ID] {
				gotRoutes[a.Route]++
				if !wantRoutes[a.Route] {
					v.fail("message %d: push to %s, which is not an online route of a recipient admitted for this message (offline, not selected, sender echo or invented)", m.ID, a.Route)
					continue
				}
				if a.Seq != m.Seq || a.MessageID != uint64(1000+m.ID) || a.Channel != id.ID {
					v.fail("message %d: push to %s carries (%s seq %d id %d)", m.ID, a.Route, a.Channel, a.Seq, a.MessageID)
				}
				owner := uint64(0)
				fmt.Sscanf(a.Route[strings.Index(a.Route, "@")+1:], "%d/", &owner)
				if a.Owner != owner || a.Local != (owner == verifC31RLocalNode) {
					v.fail("message %d: route %s pushed through owner %d (local=%v)", m.ID, a.Route, a.Owner, a.Local)
				}
			}
			for key := range wantRoutes {
				switch n := gotRoutes[key]; {
				case n == 0:
					v.fail("message %d: online route %s of an admitted recipient was never pushed", m.ID, key)
				case n > 1:
					v.fail("message %d: route %s was pushed %d times although every push was accepted", m.ID, key, n)
				}
			}
			gotOff := map[string]int{}
			for _, o := range offByMsg[m.ID] {
				for _, u := range o.UIDs {
					gotOff[u]++
				}
			}
			if m.Transient {
				if len(offByMsg[m.ID]) > 0 {
					v.fail("message %d is transient but produced an offline batch", m.ID)
				}
			} else {
				if len(offByMsg[m.ID]) > len(acceptedPlans) {
					v.fail("message %d: %d offline batches for %d admitted plans (at most one per plan)", m.ID, len(offByMsg[m.ID]), len(acceptedPlans))
				}
				for u, n := range gotOff {
					if !wantOffline[u] {
						v.fail("message %d: %s reported offline although it has online routes or was not admitted", m.ID, u)
					} else if n > 1 {
						v.fail("message %d: %s reported offline %d times", m.ID, u, n)
					}
				}
				for u := range wantOffline {
					if gotOff[u] == 0 {
						v.fail("message %d: admitted recipient %s has no online route but was not reported offline", m.ID, u)
					}
				}
			}
		}
	}
	for id := range admByMsg {
		if !known[id] {
			v.fail("a plan was admitted for unknown message %d", id)
		}
	}
	for id := range presByMsg {
		if !known[id] {
			v.fail("presence was resolved for a plan whose targets name unknown message %d", id)
		}
	}
	for id := range pushByMsg {
		if !known[id] {
			v.fail("a push carries unknown message %d", id)
		}
	}
	for id := range offByMsg {
		if !known[id] {
			v.fail("an offline batch carries unknown message %d", id)
		}
	}
	// order: per exact session and channel, durable pushes carry non-decreasing message_seq
	type okey struct{ route, channel string }
	pushes := append([]verifC31RPush(nil), h.Pushes...)
	sort.SliceStable(pushes, func(i, j int) bool { return pushes[i].Tick < pushes[j].Tick })
	last := map[okey]verifC31RPush{}
	for _, a := range pushes {
		if a.Seq == 0 {
			continue
		}
		k := okey{a.Route, a.Channel}
		if prev, ok := last[k]; ok && a.Seq < prev.Seq {
			v.fail("session %s channel %s: message_seq %d (message %d) pushed after message_seq %d (message %d)", a.Route, a.Channel, a.Seq, a.Msg, prev.Seq, prev.Msg)
		}
		last[k] = a
	}
	return v
}

func TestVerifC31RecipientDispatch(t *testing.T) {
	col := kit.For(t, "C31")
	kit.Check(t, "C31", func(rt *rapid.T, k *kit.Case) {
		p := verifC31RGen(rt)
		h := verifC31RRun(p)
		if h.unjoined {
			fmt.Println("VERIF-MACHINERY: C31 recipient harness could not join its goroutines")
			t.Fatalf("VERIF-MACHINERY: goroutines not joined")
		}
		v := verifC31RJudge(h)
		if len(v.violations) > 0 {
			b, _ := json.MarshalIndent(map[string]any{"violations": v.violations, "history": h}, "", " ")
			path := kit.SaveReplay("C31", t.Name(), "json", b)
			rt.Fatalf("C31 violated (recorded history: %s):\n  %s", path, strings.Join(v.violations, "\n  "))
		}
		if h.Hung != "" {
			col.Inconclusive("deadline: " + h.Hung)
			rt.Skip("inconclusive")
		}
		b, _ := json.Marshal(p)
		k.Key("recipient", string(b))
		k.SetNonTrivial(v.earlierQueued)
		k.LabelIf(v.multiPlanSets > 0, "recipient: recipient set packed into >=2 plans")
		k.LabelIf(v.threePlans, "recipient: recipient set packed into >=3 plans")
		k.LabelIf(v.earlierQueued, "recipient: later plan admitted while an earlier plan of the message was still queued")
		k.LabelIf(h.GateHeld >= 2, "recipient: >=2 plans admitted while presence was gated")
		k.LabelIf(v.multiTarget, "recipient: plan with >=2 authority targets")
		k.LabelIf(v.splitTarget, "recipient: authority group continued in the next plan")
		k.LabelIf(v.pagedMsg, "recipient: subscribers paged (>=2 pages)")
		k.LabelIf(v.cacheHit, "recipient: subscriber cache hit")
		k.LabelIf(v.person, "recipient: person channel")
		k.LabelIf(v.scoped, "recipient: message-scoped uids")
		k.LabelIf(v.transient, "recipient: transient (realtime) item")
		k.LabelIf(v.resolveFail, "recipient: authority lookup failure")
		k.LabelIf(v.offlineSeen, "recipient: offline batch")
		k.LabelIf(v.offlineEarly, "recipient: offline recipient in a non-last plan")
		k.LabelIf(v.suppressed, "recipient: sender echo suppressed")
		k.LabelIf(v.rejected > 0, "recipient: enqueue rejected after stop")
		k.LabelIf(h.StopBegun, "recipient: early stop")
		col.AddExtra("recipient_plans_accepted", int64(v.accepted))
		col.AddExtra("recipient_multi_plan_sets", int64(v.multiPlanSets))
		col.AddExtra("recipient_push_attempts", int64(v.pushes))
		k.Sample(func() any {
			return fmt.Sprintf("recipient: channels=%d users=%d batch=%d page=%d workers=%d queue=%d hold=%d plans=%d multiPlanSets=%d pushes=%d", len(p.Channels), len(p.Users), p.BatchSize, p.PageSize, p.Workers, p.QueueSize, p.HoldPlans, v.accepted, v.multiPlanSets, v.pushes)
		})
	})
}
