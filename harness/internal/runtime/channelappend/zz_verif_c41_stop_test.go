package channelappend

// C41 (surface 1/3) — channelappend.Group.Stop never drops accepted sends.
//
// Reuses the C29 workload runner with a stop-biased generator and a gate that
// keeps every Appender call blocked until the early Stop call has returned, so
// that a Stop with an already expired deadline is observed while appends are
// really in flight.

import (
	"encoding/json"
	"fmt"
	"testing"

	"pgregory.net/rapid"
	"verif.local/kit"
)

type verifC41AppendVerdict struct {
	violations     []string
	expiredBlocked bool // NT: Stop's deadline expired while >=1 append was blocked
	lateRejected   int
	admittedBefore int
	stopErr        bool
}

func verifC41JudgeAppend(h *verifC29History) *verifC41AppendVerdict {
	v := &verifC41AppendVerdict{}
	fail := func(format string, args ...any) {
		if len(v.violations) < 12 {
			v.violations = append(v.violations, fmt.Sprintf(format, args...))
		}
	}
	if h.Hung != "" || h.FinalStop != "" || len(h.Stops) == 0 {
		return v
	}
	early := h.Stops[0]
	hasEarly := len(h.Stops) > 1
	// nothing admitted stays unresolved once a Stop returned nil
	for i, s := range h.Stops {
		if s.Err == "" && s.UnresolvedAtNil > 0 {
			fail("Stop #%d returned nil while %d admitted future(s) were still unresolved", i+1, s.UnresolvedAtNil)
		}
	}
	if hasEarly {
		if early.AppendBlockedAtReturn {
			v.expiredBlocked = true
			if early.Err == "" {
				fail("Stop returned nil although an append admitted before it was still blocked in the Appender")
			}
		}
		v.stopErr = early.Err != ""
		if early.Err != "" && !early.Short {
			fail("a patient Stop failed: %s", early.Err)
		}
		// payloads submitted only after the stop call had returned
		lateOnly := map[string]bool{}
		seenEarly := map[string]bool{}
		for _, rec := range h.Subs {
			for _, it := range rec.Items {
				key := verifC29ChannelName(it.Ch) + "\x00" + it.Payload
				if rec.StartTick > early.ReturnTick {
					if !seenEarly[key] {
						lateOnly[key] = true
					}
				} else {
					seenEarly[key] = true
					delete(lateOnly, key)
				}
			}
		}
		for _, rec := range h.Subs {
			if rec.StartTick > early.ReturnTick {
				// submitted after the stop began (the Stop call had even returned): must be rejected
				if rec.Mode == verifC29ModeLocal {
					if rec.SubmitCls != "route_not_ready" {
						fail("caller %d call %d sub %d: SubmitLocal after Stop had returned was not rejected with ErrRouteNotReady (err=%q, results=%v)", rec.Caller, rec.Call, rec.Sub, rec.SubmitErr, rec.Results != nil)
					} else {
						v.lateRejected++
					}
					continue
				}
				for i, it := range rec.Items {
					if it.Kind != verifC29KindKeyed && it.Kind != verifC29KindUnkeyed {
						continue
					}
					if i < len(rec.Results) && rec.Results[i].Class != "route_not_ready" {
						fail("caller %d call %d item %d: send submitted after Stop had returned got %+v, want ErrRouteNotReady", rec.Caller, rec.Call, i, rec.Results[i])
					} else {
						v.lateRejected++
					}
				}
				continue
			}
			if rec.EndTick < early.BeginTick && rec.SubmitErr == "" {
				v.admittedBefore++
			}
		}
		for _, c := range h.AppendCalls {
			for _, m := range c.Msgs {
				if lateOnly[c.Channel+"\x00"+m.Payload] {
					fail("append call %d on %s carries %q, which was only submitted after Stop had returned", c.No, c.Channel, m.Payload)
				}
			}
		}
	}
	// admitted work ends with a terminal result that is not a cancellation injected by the stop
	for _, rec := range h.Subs {
		if rec.SubmitErr != "" {
			continue
		}
		for i, r := range rec.Results {
			if r.Class == "canceled" || r.Class == "deadline" {
				fail("caller %d call %d sub %d item %d: admitted send ended with a cancellation (%s) although no caller cancelled it", rec.Caller, rec.Call, rec.Sub, i, r.Err)
			}
		}
	}
	return v
}

func TestVerifC41AppendStop(t *testing.T) {
	col := kit.For(t, "C41")
	kit.Check(t, "C41", func(rt *rapid.T, k *kit.Case) {
		p := verifC29Gen(rt, true)
		gated := p.StopAt >= 0 && rapid.IntRange(0, 3).Draw(rt, "gateAppends") > 0
		h := verifC29Run(p, gated)
		if h.unjoined {
			fmt.Println("VERIF-MACHINERY: C41 append harness could not join its goroutines")
			t.Fatalf("VERIF-MACHINERY: goroutines not joined")
		}
		base := verifC29Judge(h)
		v := verifC41JudgeAppend(h)
		all := append(append([]string(nil), v.violations...), base.violations...)
		if len(all) > 0 {
			verifC29Fail(rt, "C41", t.Name(), h, all)
		}
		if h.Hung != "" || h.FinalStop != "" {
			col.Inconclusive("deadline while busy")
			rt.Skip("inconclusive")
		}
		b, _ := json.Marshal(h.Params)
		k.Key("append", string(b), gated)
		k.SetNonTrivial(v.expiredBlocked)
		k.Label("surface: channelappend.Group.Stop")
		k.LabelIf(v.expiredBlocked, "append: Stop deadline expired while an append was blocked")
		k.LabelIf(v.stopErr, "append: early Stop returned its context error")
		k.LabelIf(len(h.Stops) > 1 && !v.stopErr, "append: early Stop returned nil")
		k.LabelIf(v.lateRejected > 0, "append: submit after stop rejected")
		k.LabelIf(v.admittedBefore > 0, "append: work admitted before the stop")
		k.LabelIf(h.Params.PostCommit, "append: post-commit effects configured")
		k.Sample(func() any {
			return fmt.Sprintf("append: callers=%d stopAt=%d short=%v gated=%v lateRejected=%d appendCalls=%d", len(h.Params.Callers), h.Params.StopAt, h.Params.StopShort, gated, v.lateRejected, len(h.AppendCalls))
		})
	})
}
