package channelappend

// C41 (surface 1/3, lifecycle histories) — channelappend.Group admission and
// drain under the lifecycle calls real callers issue.
//
// internal/app drives one Group from two independent sides:
//   - App.Start / App.Stop (lifecycle.go): Start once, Stop possibly before
//     Start ("stop_before_start"), Stop retried after a caller deadline, a
//     second App.Start after a rollback Stop (Group.Start then refuses);
//   - the cluster's restore-maintenance observer (backup_maintenance.go), on
//     its own goroutine and not ordered against App.Stop: PauseForRestore
//     (twice: pauseRestoreAdmissions + suspendRestoreSideEffects), WaitIdle,
//     ResetAfterRestore when idle, and later ResumeAfterRestore -- only when a
//     suspend happened before. The observer may run before App.Start reached
//     Group.Start.
//
// A case is one drawn script of those calls executed by a controller, with
// SubmitLocal calls between the steps and from concurrent submitters; appends
// are held on a gate so that admitted work is really in flight while the
// lifecycle calls run. Judged on the recorded history (logical ticks):
//   1. a SubmitLocal that started after any Stop call had returned is rejected
//      with ErrRouteNotReady, returns no Future and never reaches the Appender,
//      whatever lifecycle calls followed that Stop;
//   2. whenever a Stop returns nil every Future handed out before is resolved,
//      and after the final Stop returned nil every Future ever handed out is;
//   3. an expired-deadline Stop returns its context error while an append is
//      blocked, and no append / post-commit effect / result carries a
//      cancellation.

import (
	"context"
	"encoding/json"
	"fmt"
	"strings"
	"sync"
	"sync/atomic"
	"testing"
	"time"

	"pgregory.net/rapid"
	"verif.local/kit"
)

const (
	verifC41LcSubmit = iota
	verifC41LcPause
	verifC41LcResume
	verifC41LcStopShort
	verifC41LcStopPatient
	verifC41LcStart
	verifC41LcRelease
	verifC41LcSettle
)

var verifC41LcOpNames = []string{"submit", "pause", "resume", "stop_short", "stop_patient", "start", "release", "settle"}

type verifC41LcStep struct {
	Op      int  `json:"op"`
	Ch      int  `json:"ch,omitempty"`
	Items   int  `json:"items,omitempty"`
	Drain   bool `json:"drain,omitempty"` // pause: the maintenance drain follows (WaitIdle, ResetAfterRestore when idle)
	PauseUS int  `json:"pause_us,omitempty"`
}

type verifC41LcSub struct {
	Ch    int `json:"ch"`
	Items int `json:"items"`
	GapUS int `json:"gap_us"`
}

type verifC41LcParams struct {
	Channels    int               `json:"channels"`
	Shards      int               `json:"shards"`
	AdvancePool int               `json:"advance_pool"`
	EffectPool  int               `json:"effect_pool"`
	PostCommit  bool              `json:"post_commit"`
	PostSlowUS  int               `json:"post_slow_us"`
	Gated       bool              `json:"gated"`
	Steps       []verifC41LcStep  `json:"steps"`
	Submitters  [][]verifC41LcSub `json:"submitters"`
	BeforeUS    [][]int           `json:"before_us"` // per channel, per append call
	CloseWindow bool              `json:"close_window"` // a maintenance window still open at the end is resumed after the final Stop
}

func verifC41LcGen(rt *rapid.T) verifC41LcParams {
	p := verifC41LcParams{}
	p.Channels = rapid.IntRange(1, 3).Draw(rt, "channels")
	p.Shards = rapid.IntRange(1, 3).Draw(rt, "shards")
	p.AdvancePool = rapid.IntRange(1, 4).Draw(rt, "advancePool")
	p.EffectPool = rapid.IntRange(1, 4).Draw(rt, "effectPool")
	p.PostCommit = rapid.IntRange(0, 2).Draw(rt, "postCommit") > 0
	if p.PostCommit && rapid.IntRange(0, 2).Draw(rt, "postSlow") == 0 {
		p.PostSlowUS = rapid.IntRange(1, 300).Draw(rt, "postSlowUS")
	}
	p.Gated = rapid.IntRange(0, 4).Draw(rt, "gated") > 0
	p.CloseWindow = rapid.IntRange(0, 3).Draw(rt, "closeWindow") > 0
	startFirst := rapid.IntRange(0, 4).Draw(rt, "startFirst") > 0
	ops := []int{
		verifC41LcSubmit, verifC41LcSubmit, verifC41LcSubmit, verifC41LcSubmit,
		verifC41LcPause, verifC41LcPause,
		verifC41LcResume, verifC41LcResume, verifC41LcResume,
		verifC41LcStopShort, verifC41LcStopShort, verifC41LcStopShort,
		verifC41LcStopPatient,
		verifC41LcStart, verifC41LcStart,
		verifC41LcRelease,
		verifC41LcSettle, verifC41LcSettle,
	}
	// window: the script holds exactly one restore-maintenance window (the
	// common real shape): the App-side calls and the traffic are drawn first,
	// then PauseForRestore and the later ResumeAfterRestore are placed at two
	// drawn positions of that script. Otherwise pauses and resumes are drawn
	// like every other step.
	window := rapid.IntRange(0, 2).Draw(rt, "window") == 0
	if window {
		ops = []int{
			verifC41LcSubmit, verifC41LcSubmit, verifC41LcSubmit, verifC41LcSubmit,
			verifC41LcStopShort, verifC41LcStopShort, verifC41LcStopShort,
			verifC41LcStopPatient,
			verifC41LcStart,
			verifC41LcRelease,
			verifC41LcSettle, verifC41LcSettle,
		}
	}
	n := rapid.IntRange(3, 12).Draw(rt, "steps")
	// warm: traffic right after Start, so that the later lifecycle calls meet
	// admitted work (blocked in the Appender when the case is gated)
	warm := 0
	if startFirst && rapid.IntRange(0, 3).Draw(rt, "warm") > 0 {
		warm = rapid.IntRange(1, 3).Draw(rt, "warmSubmits")
		n += warm
	}
	drawPause := func(st *verifC41LcStep) {
		if rapid.IntRange(0, 2).Draw(rt, "pause") == 0 {
			st.PauseUS = rapid.IntRange(1, 300).Draw(rt, "pauseUS")
		}
	}
	suspended := false
	for i := 0; i < n; i++ {
		st := verifC41LcStep{Op: rapid.SampledFrom(ops).Draw(rt, "op")}
		if i == 0 && startFirst {
			st.Op = verifC41LcStart
		} else if i <= warm {
			st.Op = verifC41LcSubmit
		}
		// the observer resumes only what it suspended before
		if st.Op == verifC41LcResume && !suspended {
			st.Op = verifC41LcPause
		}
		switch st.Op {
		case verifC41LcSubmit:
			st.Ch = rapid.IntRange(0, p.Channels-1).Draw(rt, "ch")
			st.Items = rapid.IntRange(1, 3).Draw(rt, "items")
		case verifC41LcPause:
			st.Drain = rapid.Bool().Draw(rt, "drain")
			suspended = true
		case verifC41LcResume:
			suspended = false
		}
		drawPause(&st)
		p.Steps = append(p.Steps, st)
	}
	if window {
		a := rapid.IntRange(0, len(p.Steps)).Draw(rt, "windowOpen")
		b := rapid.IntRange(a, len(p.Steps)).Draw(rt, "windowClose")
		open := verifC41LcStep{Op: verifC41LcPause, Drain: rapid.Bool().Draw(rt, "drain")}
		drawPause(&open)
		closeStep := verifC41LcStep{Op: verifC41LcResume}
		drawPause(&closeStep)
		var steps []verifC41LcStep
		steps = append(steps, p.Steps[:a]...)
		steps = append(steps, open)
		steps = append(steps, p.Steps[a:b]...)
		steps = append(steps, closeStep)
		steps = append(steps, p.Steps[b:]...)
		p.Steps = steps
	}
	nSub := rapid.IntRange(0, 3).Draw(rt, "submitters")
	for s := 0; s < nSub; s++ {
		var subs []verifC41LcSub
		m := rapid.IntRange(2, 10).Draw(rt, "subs")
		for i := 0; i < m; i++ {
			sub := verifC41LcSub{Ch: rapid.IntRange(0, p.Channels-1).Draw(rt, "sch"), Items: rapid.IntRange(1, 2).Draw(rt, "sitems")}
			switch rapid.IntRange(0, 3).Draw(rt, "gapKind") {
			case 0:
			case 1:
				sub.GapUS = rapid.IntRange(1, 60).Draw(rt, "gapShortUS")
			default:
				sub.GapUS = rapid.IntRange(60, 500).Draw(rt, "gapUS")
			}
			subs = append(subs, sub)
		}
		p.Submitters = append(p.Submitters, subs)
	}
	for ch := 0; ch < p.Channels; ch++ {
		var us []int
		for i := 0; i < 8; i++ {
			v := 0
			if rapid.IntRange(0, 2).Draw(rt, "slowB") == 0 {
				v = rapid.IntRange(1, 500).Draw(rt, "beforeUS")
			}
			us = append(us, v)
		}
		p.BeforeUS = append(p.BeforeUS, us)
	}
	return p
}

// ---- recorded history ----

type verifC41LcEvent struct {
	Step   int    `json:"step"` // index in Steps; -1: the harness's own closing calls
	Op     string `json:"op"`
	Begin  int64  `json:"begin"`
	Return int64  `json:"return"`
	Err    string `json:"err,omitempty"`
	// the group's lifecycle flags when the call was issued (measured, for labels)
	Started  bool `json:"started"`
	Paused   bool `json:"paused"`
	Stopping bool `json:"stopping"`
	Stopped  bool `json:"stopped"`
	// stop calls, measured at the instant the call returned
	AppendBlockedAtReturn bool `json:"append_blocked_at_return,omitempty"`
	UnresolvedAtNil       int  `json:"unresolved_at_nil,omitempty"`
	DrainSeen             bool `json:"drain_seen,omitempty"` // settle: the background drain had completed
}

type verifC41LcSubmitRec struct {
	By       int           `json:"by"` // -1 controller, else submitter index
	Seq      int           `json:"seq"`
	Ch       int           `json:"ch"`
	Payloads []string      `json:"payloads"`
	Start    int64         `json:"start"`
	End      int64         `json:"end"`
	Err      string        `json:"err,omitempty"`
	Class    string        `json:"class,omitempty"`
	Future   bool          `json:"future"`
	Draining bool          `json:"draining,omitempty"` // measured before the call: a stop had begun and its background drain had not finished
	Resolved bool          `json:"resolved"`
	Results  []verifC29Res `json:"results,omitempty"`
	future   *Future
}

type verifC41LcHistory struct {
	Params      verifC41LcParams       `json:"params"`
	Events      []verifC41LcEvent      `json:"events"`
	Submits     []*verifC41LcSubmitRec `json:"submits"`
	AppendCalls []*verifC29AppendCall  `json:"append_calls"`
	Post        []verifC29PostEvent    `json:"post"`
	FinalStop   string                 `json:"final_stop,omitempty"`
	Hung        string                 `json:"hung,omitempty"`
	unjoined    bool
}

func verifC41LcRun(p verifC41LcParams) *verifC41LcHistory {
	var clock atomic.Int64
	sp := verifC29Params{Channels: p.Channels}
	for _, us := range p.BeforeUS {
		var behs []verifC29Beh
		for _, v := range us {
			behs = append(behs, verifC29Beh{BeforeUS: v})
		}
		sp.Behs = append(sp.Behs, behs)
	}
	st := &verifC29Store{p: &sp, clock: &clock, chans: map[string]*verifC29ChanStore{}}
	if p.Gated {
		st.blockGate = make(chan struct{})
	}
	var gateOpen atomic.Bool
	openGate := func() { gateOpen.Store(true); st.openGate() }
	if !p.Gated {
		gateOpen.Store(true)
	}
	opts := Options{
		LocalNodeID:         verifC29LocalNode,
		Appender:            st,
		MessageID:           &verifC29IDs{},
		Idempotency:         st,
		AuthorityShardCount: p.Shards,
		AdvancePoolSize:     p.AdvancePool,
		EffectPoolSize:      p.EffectPool,
	}
	var pa *verifC29PersistAfter
	if p.PostCommit {
		pa = &verifC29PersistAfter{slowUS: p.PostSlowUS}
		opts.PersistAfterEnqueuer = pa
	}
	g := New(opts)
	h := &verifC41LcHistory{Params: p}

	var histMu sync.Mutex
	var nextID atomic.Int64
	unresolved := func() int {
		histMu.Lock()
		defer histMu.Unlock()
		n := 0
		for _, r := range h.Submits {
			if r.future == nil {
				continue
			}
			select {
			case <-r.future.done:
			default:
				n++
			}
		}
		return n
	}
	submit := func(by, seq, ch, nItems int) {
		rec := &verifC41LcSubmitRec{By: by, Seq: seq, Ch: ch}
		items := make([]SendBatchItem, nItems)
		for i := range items {
			id := int(nextID.Add(1))
			it := verifC29Item{ID: id, Kind: verifC29KindUnkeyed, Ch: ch, From: "lc", Payload: fmt.Sprintf("lc|%d|%d|%d", by, seq, id)}
			rec.Payloads = append(rec.Payloads, it.Payload)
			items[i] = SendBatchItem{Context: context.Background(), Command: verifC29Command(it)}
		}
		g.mu.RLock()
		rec.Draining = g.stopping && !g.stopped
		g.mu.RUnlock()
		rec.Start = clock.Add(1)
		f, err := g.SubmitLocal(context.Background(), verifC29Target(verifC29ChannelName(ch), false), items)
		rec.End = clock.Add(1)
		if err != nil {
			rec.Err = err.Error()
			rec.Class = verifC29ErrClass(err)
		}
		rec.future = f
		rec.Future = f != nil
		histMu.Lock()
		h.Submits = append(h.Submits, rec)
		histMu.Unlock()
	}
	flags := func(ev *verifC41LcEvent) {
		g.mu.RLock()
		ev.Started, ev.Paused, ev.Stopping, ev.Stopped = g.started, g.paused, g.stopping, g.stopped
		g.mu.RUnlock()
	}
	record := func(ev verifC41LcEvent) {
		histMu.Lock()
		h.Events = append(h.Events, ev)
		histMu.Unlock()
	}
	expired := func() (context.Context, context.CancelFunc) {
		return context.WithDeadline(context.Background(), time.Now().Add(-time.Second))
	}
	drainDone := func() bool {
		select {
		case <-g.stopDone:
			return true
		default:
			return false
		}
	}
	classifyHang := func() string {
		for i := 0; i < 100; i++ {
			if !verifC29Idle(g, st) {
				return "busy"
			}
			time.Sleep(2 * time.Millisecond)
		}
		return "quiescent"
	}
	patientStop := func(step int) bool {
		openGate()
		ev := verifC41LcEvent{Step: step, Op: "stop_patient"}
		flags(&ev)
		ctx, cancel := context.WithTimeout(context.Background(), verifC29WaitTimeout())
		ev.Begin = clock.Add(1)
		err := g.Stop(ctx)
		cancel()
		if err == nil {
			ev.UnresolvedAtNil = unresolved()
		} else {
			ev.Err = err.Error()
		}
		ev.Return = clock.Add(1)
		record(ev)
		if err != nil {
			h.FinalStop = err.Error()
			h.Hung = classifyHang()
			return false
		}
		return true
	}

	var wg sync.WaitGroup
	for si, subs := range p.Submitters {
		wg.Add(1)
		go func(si int, subs []verifC41LcSub) {
			defer wg.Done()
			for i, s := range subs {
				verifC29Sleep(s.GapUS)
				submit(si, i, s.Ch, s.Items)
			}
		}(si, subs)
	}

	stopBegun := false
	suspended := false
	ctlSeq := 0
	ok := true
	for i, step := range p.Steps {
		if !ok {
			break
		}
		verifC29Sleep(step.PauseUS)
		ev := verifC41LcEvent{Step: i, Op: verifC41LcOpNames[step.Op]}
		switch step.Op {
		case verifC41LcSubmit:
			submit(-1, ctlSeq, step.Ch, step.Items)
			ctlSeq++
			continue
		case verifC41LcStart:
			flags(&ev)
			ev.Begin = clock.Add(1)
			if err := g.Start(context.Background()); err != nil {
				ev.Err = err.Error()
			}
			ev.Return = clock.Add(1)
		case verifC41LcPause:
			flags(&ev)
			ev.Begin = clock.Add(1)
			g.PauseForRestore()
			if step.Drain {
				// suspendRestoreSideEffects: pause again, drain, reset when idle
				// (the drain's deadline is the caller's; here it has passed already,
				// so WaitIdle only reports whether the group is idle right now)
				g.PauseForRestore()
				ctx, cancel := expired()
				if err := g.WaitIdle(ctx); err != nil {
					ev.Err = "wait_idle: " + err.Error()
				} else if err := g.ResetAfterRestore(); err != nil {
					ev.Err = "reset: " + err.Error()
				}
				cancel()
			}
			ev.Return = clock.Add(1)
			suspended = true
		case verifC41LcResume:
			flags(&ev)
			ev.Begin = clock.Add(1)
			g.ResumeAfterRestore()
			ev.Return = clock.Add(1)
			suspended = false
		case verifC41LcStopShort:
			if !gateOpen.Load() && unresolved() > 0 {
				// scheduling aid only: let admitted work reach the (blocked) Appender
				for k := 0; k < 300 && st.inflight.Load() == 0; k++ {
					time.Sleep(100 * time.Microsecond)
				}
			}
			flags(&ev)
			ctx, cancel := expired()
			ev.Begin = clock.Add(1)
			err := g.Stop(ctx)
			cancel()
			if err == nil {
				ev.UnresolvedAtNil = unresolved()
			} else {
				ev.Err = err.Error()
			}
			ev.AppendBlockedAtReturn = !gateOpen.Load() && st.inflight.Load() > 0
			ev.Return = clock.Add(1)
			stopBegun = true
		case verifC41LcStopPatient:
			ok = patientStop(i)
			stopBegun = true
			continue
		case verifC41LcRelease:
			flags(&ev)
			ev.Begin = clock.Add(1)
			openGate()
			ev.Return = clock.Add(1)
		case verifC41LcSettle:
			// scheduling aid only (decides nothing): let the background drain of a
			// begun stop finish, or let admitted work reach the blocked Appender
			flags(&ev)
			ev.Begin = clock.Add(1)
			switch {
			case stopBegun && gateOpen.Load():
				for k := 0; k < 2000 && !drainDone(); k++ {
					time.Sleep(time.Millisecond)
				}
			case !gateOpen.Load() && unresolved() > 0:
				for k := 0; k < 300 && st.inflight.Load() == 0; k++ {
					time.Sleep(100 * time.Microsecond)
				}
			}
			ev.DrainSeen = drainDone()
			ev.Return = clock.Add(1)
		}
		record(ev)
	}

	joined := make(chan struct{})
	go func() { wg.Wait(); close(joined) }()
	select {
	case <-joined:
	case <-time.After(verifC29WaitTimeout()):
		openGate()
		h.unjoined = true
		return h
	}

	// closing calls: the quiescent point at which the liveness clause is judged
	if ok && patientStop(-1) {
		if suspended && p.CloseWindow {
			ev := verifC41LcEvent{Step: -1, Op: "resume"}
			flags(&ev)
			ev.Begin = clock.Add(1)
			g.ResumeAfterRestore()
			ev.Return = clock.Add(1)
			record(ev)
		}
		submit(-1, ctlSeq, 0, 1)
		// a future handed out by a stopped group (none on a correct group): give
		// it a bounded chance before it is recorded as unresolved
		for k := 0; k < 100 && unresolved() > 0 && !verifC29Idle(g, st); k++ {
			time.Sleep(2 * time.Millisecond)
		}
		ev := verifC41LcEvent{Step: -1, Op: "stop_patient"}
		flags(&ev)
		ev.Begin = clock.Add(1)
		if err := g.Stop(context.Background()); err != nil {
			ev.Err = err.Error()
		} else {
			ev.UnresolvedAtNil = unresolved()
		}
		ev.Return = clock.Add(1)
		record(ev)
	}
	openGate()

	for _, r := range h.Submits {
		if r.future == nil {
			continue
		}
		select {
		case <-r.future.done:
			r.Resolved = true
			if res, err := r.future.Wait(context.Background()); err == nil {
				r.Results = verifC29ToRes(res)
			}
		default:
		}
	}
	st.mu.Lock()
	h.AppendCalls = st.calls
	st.mu.Unlock()
	if pa != nil {
		pa.mu.Lock()
		h.Post = append([]verifC29PostEvent(nil), pa.events...)
		pa.mu.Unlock()
	}
	return h
}

// ---- oracle ----

type verifC41LcVerdict struct {
	violations []string
	// measured facts
	expiredBlocked      bool // an expired-deadline Stop returned while an append was blocked in the Appender
	admitted            int
	admittedBeforeStop  int
	lateRejected        int // submits after a Stop had returned, rejected
	lateAfterResume     int // ... that also followed a ResumeAfterRestore issued after that Stop
	lateAfterStart      int // ... that also followed a Start issued after that Stop
	lateResumeDraining  int // ... after such a ResumeAfterRestore, while the stop's background drain was still running
	resumeWhileDraining bool
	resumeAfterDrain    bool
	stopWhilePaused     bool
	stopBeforeStart     bool
	startAfterStop      bool
	startWhilePaused    bool
	pauseBeforeStart    bool
	pauseAfterStop      bool
	stopRetried         bool
	stopNilEarly        bool
	overlapStop         int // SubmitLocal calls in flight while a Stop call ran
	overlapResume       int // SubmitLocal calls in flight while a ResumeAfterRestore ran
	maintenanceReset    bool
}

func verifC41LcJudge(h *verifC41LcHistory) *verifC41LcVerdict {
	v := &verifC41LcVerdict{}
	fail := func(format string, args ...any) {
		if len(v.violations) < 12 {
			v.violations = append(v.violations, fmt.Sprintf(format, args...))
		}
	}
	if h.Hung == "quiescent" {
		fail("a patient Stop never returned although the group and its ports are quiescent (%s): admitted work was lost or the drain is stuck", h.FinalStop)
		return v
	}
	if h.Hung != "" || h.FinalStop != "" {
		return v
	}
	isStop := func(e verifC41LcEvent) bool { return e.Op == "stop_short" || e.Op == "stop_patient" }
	firstStopReturn := int64(-1)
	firstStopBegin := int64(-1)
	stops := 0
	for _, e := range h.Events {
		if !isStop(e) {
			continue
		}
		stops++
		if firstStopReturn < 0 || e.Return < firstStopReturn {
			firstStopReturn = e.Return
		}
		if firstStopBegin < 0 || e.Begin < firstStopBegin {
			firstStopBegin = e.Begin
		}
	}
	// the first ResumeAfterRestore / Start issued after a Stop had returned
	var resumeAfterStop, startAfterStop int64 = -1, -1
	for _, e := range h.Events {
		switch e.Op {
		case "stop_short", "stop_patient":
			if e.Paused {
				v.stopWhilePaused = true
			}
			if !e.Started {
				v.stopBeforeStart = true
			}
			if e.Stopping && e.Step >= 0 {
				v.stopRetried = true
			}
			if e.Err == "" && e.UnresolvedAtNil > 0 {
				fail("%s (step %d) returned nil while %d admitted future(s) were still unresolved", e.Op, e.Step, e.UnresolvedAtNil)
			}
			if e.Op == "stop_short" {
				if e.Err == "" {
					v.stopNilEarly = true
				}
				if e.AppendBlockedAtReturn {
					v.expiredBlocked = true
					if e.Err == "" {
						fail("Stop (step %d) returned nil although an append admitted before it was still blocked in the Appender", e.Step)
					}
				}
			}
		case "resume":
			if e.Stopped {
				v.resumeAfterDrain = true
			} else if e.Stopping {
				v.resumeWhileDraining = true
			}
			if firstStopReturn >= 0 && e.Begin > firstStopReturn && (resumeAfterStop < 0 || e.Return < resumeAfterStop) {
				resumeAfterStop = e.Return
			}
		case "start":
			if e.Stopping || e.Stopped {
				v.startAfterStop = true
			} else if e.Paused {
				v.startWhilePaused = true
			}
			if firstStopReturn >= 0 && e.Begin > firstStopReturn && (startAfterStop < 0 || e.Return < startAfterStop) {
				startAfterStop = e.Return
			}
		case "pause":
			if !e.Started {
				v.pauseBeforeStart = true
			}
			if e.Stopping || e.Stopped {
				v.pauseAfterStop = true
			}
			if h.Params.Steps != nil && e.Step >= 0 && h.Params.Steps[e.Step].Drain && e.Err == "" {
				v.maintenanceReset = true
			}
		}
	}

	late := map[string]*verifC41LcSubmitRec{}
	for _, r := range h.Submits {
		for _, e := range h.Events {
			if r.Start < e.Return && r.End > e.Begin {
				if isStop(e) {
					v.overlapStop++
				} else if e.Op == "resume" {
					v.overlapResume++
				}
			}
		}
		if r.Err == "" {
			v.admitted++
			if r.future == nil {
				fail("submit by %d #%d: SubmitLocal returned neither an error nor a Future", r.By, r.Seq)
			}
			if firstStopBegin < 0 || r.End < firstStopBegin {
				v.admittedBeforeStop++
			}
		} else if r.future != nil {
			fail("submit by %d #%d: SubmitLocal returned an error (%s) together with a Future", r.By, r.Seq, r.Err)
		}
		// clause 1: nothing is admitted once a stop has begun (the Stop call had even returned)
		if firstStopReturn >= 0 && r.Start > firstStopReturn {
			for _, pl := range r.Payloads {
				late[pl] = r
			}
			how := ""
			if resumeAfterStop >= 0 && r.Start > resumeAfterStop {
				how += " and a later ResumeAfterRestore"
			}
			if startAfterStop >= 0 && r.Start > startAfterStop {
				how += " and a later Start"
			}
			if r.Class != "route_not_ready" || r.future != nil {
				fail("submit by %d #%d (tick %d): SubmitLocal issued after a Stop had returned (tick %d)%s was not rejected with ErrRouteNotReady (err=%q, future=%v)", r.By, r.Seq, r.Start, firstStopReturn, how, r.Err, r.future != nil)
			} else {
				v.lateRejected++
				if strings.Contains(how, "Resume") {
					v.lateAfterResume++
					if r.Draining {
						v.lateResumeDraining++
					}
				}
				if strings.Contains(how, "Start") {
					v.lateAfterStart++
				}
			}
		}
		// clause 2: every admitted send has a terminal result at the quiescent end
		if r.future != nil && !r.Resolved {
			fail("submit by %d #%d (tick %d): admitted send never received a terminal result although the final Stop returned nil", r.By, r.Seq, r.Start)
		}
		if r.Resolved {
			if len(r.Results) != len(r.Payloads) {
				fail("submit by %d #%d: %d results for %d items", r.By, r.Seq, len(r.Results), len(r.Payloads))
			}
			// clause 3: no cancellation injected by a stop (no caller cancels anything here)
			for i, res := range r.Results {
				if res.Class == "canceled" || res.Class == "deadline" {
					fail("submit by %d #%d item %d: admitted send ended with a cancellation (%s) although no caller cancelled it", r.By, r.Seq, i, res.Err)
				}
			}
		}
	}
	for _, c := range h.AppendCalls {
		if c.CtxErr != "" {
			fail("append call %d on %s ran with a cancelled context (%s)", c.No, c.Channel, c.CtxErr)
		}
		for _, m := range c.Msgs {
			if r := late[m.Payload]; r != nil {
				fail("append call %d on %s carries %q, submitted (by %d #%d) only after a Stop had returned", c.No, c.Channel, m.Payload, r.By, r.Seq)
			}
		}
	}
	for _, e := range h.Post {
		if e.CtxErr != "" {
			fail("post-commit effect for %s seq %d ran with a cancelled context (%s)", e.Channel, e.Seq, e.CtxErr)
		}
	}
	_ = stops
	return v
}

func verifC41LcFail(rt *rapid.T, test string, h *verifC41LcHistory, violations []string) {
	b, _ := json.MarshalIndent(map[string]any{"violations": violations, "history": h}, "", " ")
	path := kit.SaveReplay("C41", test, "json", b)
	rt.Fatalf("C41 violated (recorded history: %s):\n  %s", path, strings.Join(violations, "\n  "))
}

func TestVerifC41AppendLifecycle(t *testing.T) {
	col := kit.For(t, "C41")
	kit.Check(t, "C41", func(rt *rapid.T, k *kit.Case) {
		p := verifC41LcGen(rt)
		h := verifC41LcRun(p)
		if h.unjoined {
			fmt.Println("VERIF-MACHINERY: C41 lifecycle harness could not join its goroutines")
			t.Fatalf("VERIF-MACHINERY: goroutines not joined")
		}
		v := verifC41LcJudge(h)
		if len(v.violations) > 0 {
			verifC41LcFail(rt, t.Name(), h, v.violations)
		}
		if h.Hung != "" || h.FinalStop != "" {
			col.Inconclusive("deadline while busy")
			rt.Skip("inconclusive")
		}
		b, _ := json.Marshal(h.Params)
		k.Key("append-lifecycle", string(b))
		k.SetNonTrivial(v.expiredBlocked)
		k.Label("surface: channelappend.Group lifecycle script (Start/Pause/Resume/Stop)")
		k.LabelIf(v.expiredBlocked, "lifecycle: Stop deadline expired while an append was blocked")
		k.LabelIf(v.admitted > 0, "lifecycle: some send admitted")
		k.LabelIf(v.admittedBeforeStop > 0, "lifecycle: work admitted before the first stop")
		k.LabelIf(v.lateRejected > 0, "lifecycle: submit after a stop rejected")
		k.LabelIf(v.lateAfterResume > 0, "lifecycle: submit after (Stop, then ResumeAfterRestore) rejected")
		k.LabelIf(v.lateResumeDraining > 0, "lifecycle: submit after (Stop, then ResumeAfterRestore) rejected while the background drain was still running")
		k.LabelIf(v.lateAfterStart > 0, "lifecycle: submit after (Stop, then Start) rejected")
		k.LabelIf(v.resumeWhileDraining, "lifecycle: ResumeAfterRestore while the stop's background drain was running")
		k.LabelIf(v.resumeAfterDrain, "lifecycle: ResumeAfterRestore after the drain had finished")
		k.LabelIf(v.stopWhilePaused, "lifecycle: Stop inside a restore window (paused)")
		k.LabelIf(v.stopBeforeStart, "lifecycle: Stop before Start")
		k.LabelIf(v.startAfterStop, "lifecycle: Start after a stop began")
		k.LabelIf(v.startWhilePaused, "lifecycle: Start inside a restore window")
		k.LabelIf(v.pauseBeforeStart, "lifecycle: PauseForRestore before Start")
		k.LabelIf(v.pauseAfterStop, "lifecycle: PauseForRestore after a stop began")
		k.LabelIf(v.stopRetried, "lifecycle: Stop retried while stopping")
		k.LabelIf(v.stopNilEarly, "lifecycle: expired-deadline Stop found the drain complete")
		k.LabelIf(v.overlapStop > 0, "lifecycle: SubmitLocal in flight while a Stop call ran")
		k.LabelIf(v.overlapResume > 0, "lifecycle: SubmitLocal in flight while a ResumeAfterRestore ran")
		k.LabelIf(v.maintenanceReset, "lifecycle: maintenance drain found the group idle and reset it")
		k.Sample(func() any {
			var ops []string
			for _, s := range p.Steps {
				ops = append(ops, verifC41LcOpNames[s.Op])
			}
			return fmt.Sprintf("lifecycle: gated=%v submitters=%d steps=%s admitted=%d lateRejected=%d", p.Gated, len(p.Submitters), strings.Join(ops, ","), v.admitted, v.lateRejected)
		})
	})
}
