package message

// C36 — send permission decisions are consistent across paths.
//
// Generated permission facts (channel rows, member lists, deny/allow lists,
// per-read errors, system UIDs, system device) and a batch of 1..8 SEND
// commands over a small shared name space. Every command is judged four ways:
//
//	(1) per-send:   App without a batch store — checkSendPermission and Send
//	(2) batched:    App with a PermissionBatchStore — SendBatch (raw-fact path
//	                for group and person commands, worker fallback otherwise)
//	(3) fallback:   App without a batch store — SendBatch (16-worker per-send)
//	(4) cached:     App with PermissionCacheTTL > 0 — Send, cold cache
//	(5) reference:  an evaluator written from FLOW.md's ordered list
//
// All must agree on (allowed?, reason, error identity, canonical channel id).

import (
	"context"
	"errors"
	"fmt"
	"sort"
	"strings"
	"sync"
	"sync/atomic"
	"testing"
	"time"

	channelmembers "github.com/WuKongIM/WuKongIM/internal/contracts/channelmembers"
	metadb "github.com/WuKongIM/WuKongIM/pkg/db/meta"
	runtimechannelid "github.com/WuKongIM/WuKongIM/pkg/protocol/channelid"
	"pgregory.net/rapid"
	"verif.local/kit"
)

// ------------------------------------------------------------------ facts ----

type verifC36Key struct {
	kind        PermissionReadKind
	channelID   string
	channelType int64
	uid         string
}

func (k verifC36Key) String() string {
	switch k.kind {
	case PermissionReadChannel:
		return fmt.Sprintf("row(%s,%d)", verifC36Short(k.channelID), k.channelType)
	case PermissionReadSubscriberContains:
		return fmt.Sprintf("contains(%s,%d,%s)", verifC36Short(k.channelID), k.channelType, k.uid)
	default:
		return fmt.Sprintf("hasAny(%s,%d)", verifC36Short(k.channelID), k.channelType)
	}
}

func verifC36Short(id string) string {
	const p = "__wk_internal_memberlist__/"
	if strings.HasPrefix(id, p) {
		return "list:" + strings.TrimPrefix(id, p)
	}
	return id
}

type verifC36Fact struct {
	found   bool
	channel metadb.Channel
	value   bool
	err     error
}

// verifC36World is the single source of truth served through both ports.
type verifC36World struct {
	facts map[verifC36Key]verifC36Fact

	mu         sync.Mutex
	unforeseen map[verifC36Key]bool
	batchCalls int
	pointReads int
}

func (w *verifC36World) lookup(k verifC36Key) verifC36Fact {
	f, ok := w.facts[k]
	if !ok {
		w.mu.Lock()
		if w.unforeseen == nil {
			w.unforeseen = map[verifC36Key]bool{}
		}
		w.unforeseen[k] = true
		w.mu.Unlock()
	}
	return f
}

// per-read port
type verifC36Store struct{ w *verifC36World }

func (s verifC36Store) count() {
	s.w.mu.Lock()
	s.w.pointReads++
	s.w.mu.Unlock()
}

func (s verifC36Store) GetChannelForPermission(_ context.Context, channelID string, channelType int64) (metadb.Channel, error) {
	s.count()
	f := s.w.lookup(verifC36Key{kind: PermissionReadChannel, channelID: channelID, channelType: channelType})
	if f.err != nil {
		return metadb.Channel{}, f.err
	}
	if !f.found {
		return metadb.Channel{}, metadb.ErrNotFound
	}
	return f.channel, nil
}

func (s verifC36Store) ContainsChannelSubscriber(_ context.Context, channelID string, channelType int64, uid string) (bool, error) {
	s.count()
	f := s.w.lookup(verifC36Key{kind: PermissionReadSubscriberContains, channelID: channelID, channelType: channelType, uid: uid})
	if f.err != nil {
		return false, f.err
	}
	return f.value, nil
}

func (s verifC36Store) HasChannelSubscribers(_ context.Context, channelID string, channelType int64) (bool, error) {
	s.count()
	f := s.w.lookup(verifC36Key{kind: PermissionReadSubscriberHasAny, channelID: channelID, channelType: channelType})
	if f.err != nil {
		return false, f.err
	}
	return f.value, nil
}

// batched raw-fact port (same facts)
type verifC36BatchStore struct{ verifC36Store }

func (s verifC36BatchStore) ReadPermissionsBatch(_ context.Context, reads []PermissionRead) []PermissionReadResult {
	s.w.mu.Lock()
	s.w.batchCalls++
	s.w.mu.Unlock()
	out := make([]PermissionReadResult, len(reads))
	for i, r := range reads {
		f := s.w.lookup(verifC36Key{kind: r.Kind, channelID: r.ChannelID, channelType: r.ChannelType, uid: r.UID})
		if f.err != nil {
			out[i].Err = f.err
			continue
		}
		switch r.Kind {
		case PermissionReadChannel:
			out[i].Found, out[i].Channel = f.found, f.channel
		default:
			out[i].Value = f.value
		}
	}
	return out
}

type verifC36SystemUIDs map[string]bool

func (s verifC36SystemUIDs) IsSystemUID(uid string) bool { return s[uid] }

// recording submitter: accepts everything, remembers what it was given.
type verifC36Submitter struct {
	mu   sync.Mutex
	seen map[string]SendCommand // by ClientMsgNo
	dup  bool
}

func (s *verifC36Submitter) record(cmd SendCommand) {
	s.mu.Lock()
	if s.seen == nil {
		s.seen = map[string]SendCommand{}
	}
	if _, ok := s.seen[cmd.ClientMsgNo]; ok {
		s.dup = true
	}
	s.seen[cmd.ClientMsgNo] = cmd
	s.mu.Unlock()
}

func (s *verifC36Submitter) Send(_ context.Context, cmd SendCommand) (SendResult, error) {
	s.record(cmd)
	return SendResult{MessageID: cmd.ClientSeq, MessageSeq: 1, Reason: ReasonSuccess}, nil
}

func (s *verifC36Submitter) SendBatch(items []SendBatchItem) []SendBatchItemResult {
	out := make([]SendBatchItemResult, len(items))
	for i, it := range items {
		s.record(it.Command)
		out[i] = SendBatchItemResult{Result: SendResult{MessageID: it.Command.ClientSeq, MessageSeq: 1, Reason: ReasonSuccess}}
	}
	return out
}

// ------------------------------------------------------------- reference ----

type verifC36Config struct {
	storeNil         bool
	systemUIDs       verifC36SystemUIDs // nil = no checker configured
	systemDeviceID   string
	personWhitelist  bool
	batchStoreOnPath bool
}

type verifC36Verdict struct {
	allowed   bool
	reason    Reason
	err       error
	channelID string // canonical id handed to the submitter when allowed
}

func (v verifC36Verdict) String() string {
	return fmt.Sprintf("{allowed=%v reason=%d err=%v channel=%q}", v.allowed, v.reason, v.err, v.channelID)
}

type verifC36Ref struct {
	cfg verifC36Config
	w   map[verifC36Key]verifC36Fact
	// applicable collects every rejection that the facts support for this
	// command regardless of precedence (for the non-trivial rule).
	applicable map[string]bool
}

func (r *verifC36Ref) row(id string, typ int64) verifC36Fact {
	return r.w[verifC36Key{kind: PermissionReadChannel, channelID: id, channelType: typ}]
}
func (r *verifC36Ref) contains(id string, typ int64, uid string) verifC36Fact {
	return r.w[verifC36Key{kind: PermissionReadSubscriberContains, channelID: id, channelType: typ, uid: uid}]
}
func (r *verifC36Ref) hasAny(id string, typ int64) verifC36Fact {
	return r.w[verifC36Key{kind: PermissionReadSubscriberHasAny, channelID: id, channelType: typ}]
}

func verifC36Reject(reason Reason) *verifC36Verdict { return &verifC36Verdict{reason: reason} }
func verifC36Fail(err error) *verifC36Verdict {
	return &verifC36Verdict{reason: ReasonSystemError, err: err}
}

// terminal: the irreversible disband state of the source channel.
func (r *verifC36Ref) terminal(id string, typ uint8) *verifC36Verdict {
	f := r.row(id, int64(typ))
	if f.err != nil {
		return verifC36Fail(f.err)
	}
	if f.found && f.channel.Disband != 0 {
		return verifC36Reject(ReasonDisband)
	}
	return nil
}

// member: deny list, subscriber list, non-empty allow list — in this order.
func (r *verifC36Ref) member(key channelmembers.ChannelKey, from string) *verifC36Verdict {
	typ := int64(key.ChannelType)
	if f := r.contains(channelmembers.DenylistChannelID(key), typ, from); f.err != nil {
		return verifC36Fail(f.err)
	} else if f.value {
		return verifC36Reject(ReasonInBlacklist)
	}
	if f := r.contains(key.ChannelID, typ, from); f.err != nil {
		return verifC36Fail(f.err)
	} else if !f.value {
		return verifC36Reject(ReasonSubscriberNotExist)
	}
	allowID := channelmembers.AllowlistChannelID(key)
	if f := r.hasAny(allowID, typ); f.err != nil {
		return verifC36Fail(f.err)
	} else if !f.value {
		return nil
	}
	if f := r.contains(allowID, typ, from); f.err != nil {
		return verifC36Fail(f.err)
	} else if !f.value {
		return verifC36Reject(ReasonNotInWhitelist)
	}
	return nil
}

func (r *verifC36Ref) isSystem(uid string) bool { return r.cfg.systemUIDs != nil && r.cfg.systemUIDs[uid] }

// judge is the precedence list of FLOW.md, one step per line of that list.
func (r *verifC36Ref) judge(cmd SendCommand) verifC36Verdict {
	// request-scoped delivery is permission-free
	if cmd.RequestScoped || (len(cmd.MessageScopedUIDs) > 0 && cmd.ChannelID == "") {
		return verifC36Verdict{allowed: true, channelID: cmd.ChannelID}
	}
	// normalize command-channel IDs to their source channel for permission checks
	source, isCommand := runtimechannelid.FromCommandChannel(cmd.ChannelID)
	// normalize person-channel IDs when requested by the entry adapter
	if cmd.ChannelType == channelTypePerson && cmd.NormalizePersonChannel {
		normalized, err := runtimechannelid.NormalizePersonChannel(cmd.FromUID, source)
		if err != nil {
			return verifC36Verdict{err: err}
		}
		source = normalized
	}
	canonical := source
	if isCommand {
		canonical = runtimechannelid.ToCommandChannel(source)
	}
	allow := verifC36Verdict{allowed: true, channelID: canonical}
	out := func(v *verifC36Verdict) verifC36Verdict {
		if v == nil {
			return allow
		}
		return *v
	}
	// if PermissionStore is nil, allow
	if r.cfg.storeNil {
		return allow
	}
	// system UID: authoritatively check source-channel Disband, then bypass
	if r.isSystem(cmd.FromUID) {
		return out(r.terminal(source, cmd.ChannelType))
	}
	// sender SendBan through the sender's person metadata row
	if f := r.row(cmd.FromUID, int64(channelTypePerson)); f.err != nil {
		return *verifC36Fail(f.err)
	} else if f.found && f.channel.SendBan != 0 {
		return *verifC36Reject(ReasonSendBan)
	}
	// system device: authoritatively check Disband, then bypass
	if r.cfg.systemDeviceID != "" && cmd.DeviceID == r.cfg.systemDeviceID {
		return out(r.terminal(source, cmd.ChannelType))
	}
	switch cmd.ChannelType {
	case channelTypeGroup:
		// group metadata, ban, disband, then member lists
		f := r.row(source, int64(channelTypeGroup))
		switch {
		case f.err != nil:
			return *verifC36Fail(f.err)
		case !f.found:
			return *verifC36Reject(ReasonChannelNotExist)
		case f.channel.Ban != 0:
			return *verifC36Reject(ReasonBan)
		case f.channel.Disband != 0:
			return *verifC36Reject(ReasonDisband)
		}
		return out(r.member(channelmembers.ChannelKey{ChannelID: source, ChannelType: channelTypeGroup}, cmd.FromUID))
	case channelTypePerson:
		if v := r.terminal(source, cmd.ChannelType); v != nil {
			return *v
		}
		left, right, err := runtimechannelid.DecodePersonChannel(source)
		if err != nil {
			return verifC36Verdict{err: err}
		}
		receiver := right
		if cmd.FromUID == right {
			receiver = left
		}
		if r.isSystem(receiver) {
			return allow
		}
		key := channelmembers.ChannelKey{ChannelID: receiver, ChannelType: channelTypePerson}
		if f := r.contains(channelmembers.DenylistChannelID(key), 1, cmd.FromUID); f.err != nil {
			return *verifC36Fail(f.err)
		} else if f.value {
			return *verifC36Reject(ReasonInBlacklist)
		}
		if !r.cfg.personWhitelist {
			return allow
		}
		if f := r.contains(channelmembers.AllowlistChannelID(key), 1, cmd.FromUID); f.err != nil {
			return *verifC36Fail(f.err)
		} else if f.value {
			return allow
		}
		if f := r.row(receiver, 1); f.err != nil {
			return *verifC36Fail(f.err)
		} else if f.found && f.channel.AllowStranger != 0 {
			return allow
		}
		return *verifC36Reject(ReasonNotInWhitelist)
	case channelTypeAgent:
		if v := r.terminal(source, cmd.ChannelType); v != nil {
			return *v
		}
		uid, agent, err := runtimechannelid.DecodeAgentChannel(source)
		if err != nil {
			return verifC36Verdict{err: err}
		}
		if cmd.FromUID == uid || cmd.FromUID == agent {
			return allow
		}
		return *verifC36Reject(ReasonNotAllowSend)
	case channelTypeVisitors:
		if v := r.terminal(source, cmd.ChannelType); v != nil {
			return *v
		}
		if cmd.FromUID == source {
			return allow
		}
		return out(r.member(channelmembers.ChannelKey{ChannelID: source, ChannelType: channelTypeCustomerService}, cmd.FromUID))
	default: // info, customer service and every other type: terminal state only
		return out(r.terminal(source, cmd.ChannelType))
	}
}

// verifC36Keys enumerates every fact any path may read for cmd, and which
// rejections those facts could support (used to draw facts and to measure
// "two or more reasons apply").
func verifC36Keys(cfg verifC36Config, cmd SendCommand) []verifC36Key {
	source, _ := runtimechannelid.FromCommandChannel(cmd.ChannelID)
	if cmd.ChannelType == channelTypePerson && cmd.NormalizePersonChannel {
		if n, err := runtimechannelid.NormalizePersonChannel(cmd.FromUID, source); err == nil {
			source = n
		}
	}
	row := func(id string, t int64) verifC36Key {
		return verifC36Key{kind: PermissionReadChannel, channelID: id, channelType: t}
	}
	contains := func(id string, t int64, uid string) verifC36Key {
		return verifC36Key{kind: PermissionReadSubscriberContains, channelID: id, channelType: t, uid: uid}
	}
	lists := func(key channelmembers.ChannelKey) []verifC36Key {
		t := int64(key.ChannelType)
		allow := channelmembers.AllowlistChannelID(key)
		return []verifC36Key{contains(channelmembers.DenylistChannelID(key), t, cmd.FromUID), contains(key.ChannelID, t, cmd.FromUID),
			{kind: PermissionReadSubscriberHasAny, channelID: allow, channelType: t}, contains(allow, t, cmd.FromUID)}
	}
	keys := []verifC36Key{row(cmd.FromUID, 1), row(source, int64(cmd.ChannelType))}
	switch cmd.ChannelType {
	case channelTypeGroup:
		keys = append(keys, lists(channelmembers.ChannelKey{ChannelID: source, ChannelType: channelTypeGroup})...)
	case channelTypeVisitors:
		keys = append(keys, lists(channelmembers.ChannelKey{ChannelID: source, ChannelType: channelTypeCustomerService})...)
	case channelTypePerson:
		if left, right, err := runtimechannelid.DecodePersonChannel(source); err == nil {
			receiver := right
			if cmd.FromUID == right {
				receiver = left
			}
			key := channelmembers.ChannelKey{ChannelID: receiver, ChannelType: channelTypePerson}
			keys = append(keys, contains(channelmembers.DenylistChannelID(key), 1, cmd.FromUID),
				contains(channelmembers.AllowlistChannelID(key), 1, cmd.FromUID), row(receiver, 1))
		}
	}
	return keys
}

// verifC36Applicable lists the rejections the facts support for cmd when
// precedence and trusted-sender bypasses are ignored.
func verifC36Applicable(cfg verifC36Config, w map[verifC36Key]verifC36Fact, cmd SendCommand) []string {
	set := map[string]bool{}
	for _, k := range verifC36Keys(cfg, cmd) {
		f := w[k]
		if f.err != nil {
			set["error:"+k.String()] = true
			continue
		}
		switch k.kind {
		case PermissionReadChannel:
			if k.channelID == cmd.FromUID && k.channelType == 1 && f.found && f.channel.SendBan != 0 {
				set["send-ban"] = true
			}
			src, _ := runtimechannelid.FromCommandChannel(cmd.ChannelID)
			isSource := k.channelType == int64(cmd.ChannelType) && (k.channelID == src || cmd.ChannelType == channelTypePerson && k.channelID != cmd.FromUID)
			if isSource {
				if f.found && f.channel.Disband != 0 {
					set["disband"] = true
				}
				if cmd.ChannelType == channelTypeGroup {
					if !f.found {
						set["not-exist"] = true
					} else if f.channel.Ban != 0 {
						set["ban"] = true
					}
				}
			}
		case PermissionReadSubscriberContains:
			switch {
			case strings.Contains(k.channelID, "/deny/"):
				if f.value {
					set["blacklist"] = true
				}
			case strings.Contains(k.channelID, "/allow/"):
				if !f.value && (cmd.ChannelType == channelTypePerson && cfg.personWhitelist ||
					cmd.ChannelType != channelTypePerson && w[verifC36Key{kind: PermissionReadSubscriberHasAny, channelID: k.channelID, channelType: k.channelType}].value) {
					set["whitelist"] = true
				}
			default:
				if !f.value {
					set["not-subscriber"] = true
				}
			}
		}
	}
	if cmd.ChannelType == channelTypeAgent {
		src, _ := runtimechannelid.FromCommandChannel(cmd.ChannelID)
		if uid, agent, err := runtimechannelid.DecodeAgentChannel(src); err != nil {
			set["malformed-channel"] = true
		} else if cmd.FromUID != uid && cmd.FromUID != agent {
			set["not-allow-send"] = true
		}
	}
	out := make([]string, 0, len(set))
	for s := range set {
		out = append(out, s)
	}
	sort.Strings(out)
	return out
}

// ------------------------------------------------------------- generators ----

var (
	verifC36UIDs   = []string{"u1", "u2", "u3", "sys", "agent1", "v1"}
	verifC36Groups = []string{"g1", "g2", "v1", "u1"}
)

func verifC36Command(t *rapid.T, cfg verifC36Config, i int) SendCommand {
	cmd := SendCommand{
		FromUID:     rapid.SampledFrom(verifC36UIDs).Draw(t, "from"),
		ClientMsgNo: fmt.Sprintf("m%d", i), ClientSeq: uint64(i + 1), Payload: []byte("p"),
	}
	devices := []string{"", "d1"}
	if cfg.systemDeviceID != "" {
		devices = append(devices, cfg.systemDeviceID, cfg.systemDeviceID)
	}
	cmd.DeviceID = rapid.SampledFrom(devices).Draw(t, "device")
	peer := rapid.SampledFrom(verifC36UIDs).Draw(t, "peer")
	switch rapid.SampledFrom([]string{"group", "group", "group", "person", "person", "person", "visitors", "agent", "info", "cs", "other"}).Draw(t, "type") {
	case "group":
		cmd.ChannelType = channelTypeGroup
		cmd.ChannelID = rapid.SampledFrom(verifC36Groups[:2]).Draw(t, "group")
	case "person":
		cmd.ChannelType = channelTypePerson
		cmd.NormalizePersonChannel = true // every entry adapter sets it for person channels
		switch rapid.IntRange(0, 9).Draw(t, "personForm") {
		case 0: // already canonical
			cmd.ChannelID = runtimechannelid.EncodePersonChannel(cmd.FromUID, peer)
		case 1: // pair in the other order
			a, b, _ := runtimechannelid.DecodePersonChannel(runtimechannelid.EncodePersonChannel(cmd.FromUID, peer))
			cmd.ChannelID = b + "@" + a
		case 2: // a pair the sender is not part of, or malformed: normalisation fails
			cmd.ChannelID = rapid.SampledFrom([]string{"x@y", "u2@", "@u1", "a@b@c", ""}).Draw(t, "badPerson")
		case 3: // well-formed canonical id without the normalisation request (no adapter does this; both paths must still agree)
			cmd.NormalizePersonChannel = false
			cmd.ChannelID = runtimechannelid.EncodePersonChannel(cmd.FromUID, peer)
		default:
			cmd.ChannelID = peer
		}
	case "visitors":
		cmd.ChannelType = channelTypeVisitors
		cmd.ChannelID = rapid.SampledFrom([]string{"v1", "v1", cmd.FromUID}).Draw(t, "visitor")
	case "agent":
		cmd.ChannelType = channelTypeAgent
		cmd.ChannelID = rapid.SampledFrom([]string{"u1@agent1", "u2@agent1", cmd.FromUID + "@agent1", "u1", "u1@agent1@x"}).Draw(t, "agentChannel")
	case "info":
		cmd.ChannelType = channelTypeInfo
		cmd.ChannelID = "g1"
	case "cs":
		cmd.ChannelType = channelTypeCustomerService
		cmd.ChannelID = "v1"
	default:
		cmd.ChannelType = uint8(rapid.SampledFrom([]int{4, 5, 8, 9, 99}).Draw(t, "otherType"))
		cmd.ChannelID = "g1"
	}
	if rapid.IntRange(0, 4).Draw(t, "cmdSuffix") == 0 {
		cmd.ChannelID = runtimechannelid.ToCommandChannel(cmd.ChannelID)
		if rapid.IntRange(0, 5).Draw(t, "doubleSuffix") == 3 {
			// a client-chosen id that ends in the suffix twice. Excluded by
			// construction (and counted) while the finding is listed as known;
			// TestVerifC36DoubledCommandSuffix re-establishes it on every run.
			if verifC36DoubledSuffixKnown() {
				verifC36Excluded.Add(1)
			} else {
				cmd.ChannelID += runtimechannelid.CommandChannelSuffix
			}
		}
	}
	switch rapid.IntRange(0, 39).Draw(t, "scoped") {
	case 17:
		cmd.RequestScoped, cmd.MessageScopedUIDs, cmd.ChannelID, cmd.ChannelType = true, []string{"u2"}, "", 0
	case 23:
		cmd.MessageScopedUIDs = []string{"u2", "u3"} // message-scoped targets on an ordinary channel: ordinary checks still apply
	}
	if rapid.IntRange(0, 2).Draw(t, "session") > 0 {
		cmd.SenderNodeID, cmd.SenderSessionID = 1, uint64(rapid.IntRange(1, 2).Draw(t, "sessionID"))
	}
	return cmd
}

func verifC36DrawFact(t *rapid.T, k verifC36Key, withErrors bool, injected *int) verifC36Fact {
	label := k.String()
	if withErrors && rapid.IntRange(0, 11).Draw(t, label+" err") == 0 {
		*injected++
		return verifC36Fact{err: fmt.Errorf("injected read failure %s", label)}
	}
	switch k.kind {
	case PermissionReadChannel:
		// weighted row templates: absent, plain, and every flag combination that matters
		tpl := rapid.SampledFrom([]string{"plain", "absent", "disband", "ban", "plain+stranger", "sendban", "absent", "ban+disband", "plain",
			"sendban+disband", "stranger+disband", "absent", "ban+sendban", "plain+stranger", "all"}).Draw(t, label)
		if tpl == "absent" {
			return verifC36Fact{}
		}
		f := verifC36Fact{found: true, channel: metadb.Channel{ChannelID: k.channelID, ChannelType: k.channelType}}
		if strings.Contains(tpl, "disband") || tpl == "all" {
			f.channel.Disband = 1
		}
		if strings.HasPrefix(tpl, "ban") || tpl == "all" {
			f.channel.Ban = 1
		}
		if strings.Contains(tpl, "sendban") || tpl == "all" {
			f.channel.SendBan = 1
		}
		if strings.Contains(tpl, "stranger") || tpl == "all" {
			f.channel.AllowStranger = 1
		}
		return f
	default:
		return verifC36Fact{value: rapid.Bool().Draw(t, label)}
	}
}

// ------------------------------------------------------------------ test ----

func verifC36SameErr(a, b error) bool {
	if a == nil || b == nil {
		return a == nil && b == nil
	}
	return errors.Is(a, b) || errors.Is(b, a)
}

// verifC36Same compares decision, reason, error identity and the channel id
// handed to the submitter.
func verifC36Same(cmd SendCommand, a, b verifC36Verdict) bool {
	if a.allowed != b.allowed || a.reason != b.reason || !verifC36SameErr(a.err, b.err) {
		return false
	}
	return !a.allowed || a.channelID == b.channelID
}

const verifC36DoubledSuffixSignature = "doubled-command-suffix:paths-diverge"

var verifC36Excluded atomic.Int64

// verifC36DoubledSuffixKnown: the finding is listed in known_findings.json.
func verifC36DoubledSuffixKnown() bool {
	return kit.HasKnownFinding("C36", verifC36DoubledSuffixSignature)
}

func verifC36DoubleSuffix(cmd SendCommand) bool {
	return strings.HasSuffix(cmd.ChannelID, runtimechannelid.CommandChannelSuffix+runtimechannelid.CommandChannelSuffix)
}

func TestVerifC36PermissionPaths(t *testing.T) {
	kit.Check(t, "C36", func(rt *rapid.T, k *kit.Case) {
		cfg := verifC36Config{personWhitelist: rapid.Bool().Draw(rt, "personWhitelist")}
		switch rapid.IntRange(0, 3).Draw(rt, "systemUIDs") {
		case 0:
			cfg.systemUIDs = nil
		case 1:
			cfg.systemUIDs = verifC36SystemUIDs{"sys": true}
		default:
			cfg.systemUIDs = verifC36SystemUIDs{"sys": true, rapid.SampledFrom(verifC36UIDs).Draw(rt, "extraSystem"): true}
		}
		if rapid.IntRange(0, 2).Draw(rt, "hasSystemDevice") > 0 {
			cfg.systemDeviceID = "____device"
		}
		cfg.storeNil = rapid.IntRange(0, 59).Draw(rt, "storeNil") == 41
		withErrors := rapid.IntRange(0, 3).Draw(rt, "withErrors") == 0

		n := rapid.IntRange(1, 8).Draw(rt, "commands")
		cmds := make([]SendCommand, n)
		for i := range cmds {
			cmds[i] = verifC36Command(rt, cfg, i)
			if i > 0 && rapid.IntRange(0, 5).Draw(rt, "repeatScope") == 0 {
				// same permission scope as an earlier item, different identity
				prev := cmds[rapid.IntRange(0, i-1).Draw(rt, "repeatOf")]
				prev.ClientMsgNo, prev.ClientSeq = cmds[i].ClientMsgNo, cmds[i].ClientSeq
				cmds[i] = prev
			}
		}
		// facts for every key any path may read, in a stable order
		keySet := map[verifC36Key]bool{}
		var keys []verifC36Key
		for _, cmd := range cmds {
			for _, key := range verifC36Keys(cfg, cmd) {
				if !keySet[key] {
					keySet[key] = true
					keys = append(keys, key)
				}
			}
		}
		sort.Slice(keys, func(i, j int) bool { return keys[i].String() < keys[j].String() })
		world := &verifC36World{facts: map[verifC36Key]verifC36Fact{}}
		injected := 0
		for _, key := range keys {
			world.facts[key] = verifC36DrawFact(rt, key, withErrors, &injected)
		}
		// a store cannot report "list empty" while it contains the sender
		for key, f := range world.facts {
			if key.kind == PermissionReadSubscriberContains && f.err == nil && f.value {
				any := verifC36Key{kind: PermissionReadSubscriberHasAny, channelID: key.channelID, channelType: key.channelType}
				if af, ok := world.facts[any]; ok && af.err == nil {
					af.value = true
					world.facts[any] = af
				}
			}
		}

		mkApp := func(batch bool, ttl time.Duration) (*App, *verifC36Submitter) {
			sub := &verifC36Submitter{}
			opts := Options{Submitter: sub, PersonWhitelistEnabled: cfg.personWhitelist, SystemDeviceID: cfg.systemDeviceID, PermissionCacheTTL: ttl,
				Now: func() time.Time { return time.Unix(1_800_000_000, 0) }}
			if cfg.systemUIDs != nil {
				opts.SystemUIDs = cfg.systemUIDs
			}
			if !cfg.storeNil {
				opts.PermissionStore = verifC36Store{w: world}
				if batch {
					opts.PermissionBatchStore = verifC36BatchStore{verifC36Store{w: world}}
				}
			}
			return New(opts), sub
		}
		ctx := context.Background()
		ref := &verifC36Ref{cfg: cfg, w: world.facts}
		want := make([]verifC36Verdict, n)
		for i, cmd := range cmds {
			want[i] = ref.judge(cmd)
		}
		explain := func(i int) string {
			var sb strings.Builder
			fmt.Fprintf(&sb, "command[%d]: from=%q device=%q channel=%q type=%d normalize=%v scoped=%v/%d\nconfig: systemUIDs=%v systemDevice=%q personWhitelist=%v storeNil=%v\nfacts:\n",
				i, cmds[i].FromUID, cmds[i].DeviceID, cmds[i].ChannelID, cmds[i].ChannelType, cmds[i].NormalizePersonChannel, cmds[i].RequestScoped, len(cmds[i].MessageScopedUIDs),
				cfg.systemUIDs, cfg.systemDeviceID, cfg.personWhitelist, cfg.storeNil)
			for _, key := range verifC36Keys(cfg, cmds[i]) {
				f := world.facts[key]
				fmt.Fprintf(&sb, "  %s = found=%v ban=%d disband=%d sendBan=%d allowStranger=%d value=%v err=%v\n", key, f.found, f.channel.Ban, f.channel.Disband, f.channel.SendBan, f.channel.AllowStranger, f.value, f.err)
			}
			return sb.String()
		}

		// (1) per-send path
		single, singleSub := mkApp(false, 0)
		got1 := make([]verifC36Verdict, n)
		for i, cmd := range cmds {
			out, reason, err := single.checkSendPermission(ctx, cmd.Clone())
			got1[i] = verifC36Verdict{allowed: err == nil && reason == ReasonSuccess, reason: reason, err: err, channelID: out.ChannelID}
			res, sendErr := single.Send(ctx, cmd.Clone())
			viaSend := verifC36Verdict{reason: res.Reason, err: sendErr}
			if seen, ok := singleSub.seen[cmd.ClientMsgNo]; ok {
				viaSend.allowed, viaSend.channelID = true, seen.ChannelID
			}
			if !verifC36Same(cmd, got1[i], viaSend) {
				rt.Fatalf("VERIF-VIOLATION C36: Send and checkSendPermission disagree: %v vs %v\n%s", viaSend, got1[i], explain(i))
			}
		}
		// (2) batched path, (3) worker fallback through SendBatch
		runBatch := func(app *App, sub *verifC36Submitter) []verifC36Verdict {
			items := make([]SendBatchItem, n)
			for i, cmd := range cmds {
				items[i] = SendBatchItem{Context: ctx, Command: cmd.Clone()}
			}
			results := app.SendBatch(items)
			if len(results) != n {
				rt.Fatalf("SendBatch returned %d results for %d items", len(results), n)
			}
			out := make([]verifC36Verdict, n)
			for i := range results {
				out[i] = verifC36Verdict{reason: results[i].Result.Reason, err: results[i].Err}
				if seen, ok := sub.seen[cmds[i].ClientMsgNo]; ok {
					out[i].allowed, out[i].channelID = true, seen.ChannelID
					if results[i].Result.MessageID != cmds[i].ClientSeq {
						rt.Fatalf("VERIF-VIOLATION C36: SendBatch result %d is not aligned with its item (message id %d)", i, results[i].Result.MessageID)
					}
				}
			}
			if sub.dup {
				rt.Fatalf("VERIF-VIOLATION C36: an item was submitted twice")
			}
			return out
		}
		batched, batchedSub := mkApp(true, 0)
		got2 := runBatch(batched, batchedSub)
		batchCalls := world.batchCalls
		fallback, fallbackSub := mkApp(false, 0)
		got3 := runBatch(fallback, fallbackSub)
		// (4) read-through cache in front of the per-send path, cold
		cached, cachedSub := mkApp(false, time.Minute)
		got4 := make([]verifC36Verdict, n)
		for i, cmd := range cmds {
			res, err := cached.Send(ctx, cmd.Clone())
			got4[i] = verifC36Verdict{reason: res.Reason, err: err}
			if seen, ok := cachedSub.seen[cmd.ClientMsgNo]; ok {
				got4[i].allowed, got4[i].channelID = true, seen.ChannelID
			}
		}

		twoReasons, sawTrusted, sawBatchedKind := false, false, false
		for i, cmd := range cmds {
			if !verifC36Same(cmd, got1[i], got2[i]) {
				rt.Fatalf("VERIF-VIOLATION C36: per-send and batched paths disagree\n per-send %v\n batched  %v\n reference %v\n%s", got1[i], got2[i], want[i], explain(i))
			}
			if !verifC36Same(cmd, got1[i], got3[i]) {
				rt.Fatalf("VERIF-VIOLATION C36: per-send and SendBatch worker fallback disagree\n per-send %v\n fallback %v\n%s", got1[i], got3[i], explain(i))
			}
			if !verifC36Same(cmd, got1[i], got4[i]) {
				rt.Fatalf("VERIF-VIOLATION C36: per-send with and without the read-through cache disagree\n uncached %v\n cached   %v\n%s", got1[i], got4[i], explain(i))
			}
			if !verifC36DoubleSuffix(cmd) && !verifC36Same(cmd, want[i], got1[i]) {
				rt.Fatalf("VERIF-VIOLATION C36: decision differs from the documented precedence\n reference %v\n per-send  %v\n batched   %v\n%s", want[i], got1[i], got2[i], explain(i))
			}
			// trusted senders are refused only for the terminal state
			scoped := cmd.RequestScoped || (len(cmd.MessageScopedUIDs) > 0 && cmd.ChannelID == "")
			if !scoped && !cfg.storeNil && cfg.systemUIDs != nil && cfg.systemUIDs[cmd.FromUID] {
				sawTrusted = true
				for _, g := range []verifC36Verdict{got1[i], got2[i]} {
					if !g.allowed && g.reason != ReasonDisband && g.err == nil {
						rt.Fatalf("VERIF-VIOLATION C36: system sender refused with reason %d (only Disband may stop it)\n%s", g.reason, explain(i))
					}
				}
			}
			if !scoped && !cfg.storeNil && cfg.systemDeviceID != "" && cmd.DeviceID == cfg.systemDeviceID {
				sawTrusted = true
				for _, g := range []verifC36Verdict{got1[i], got2[i]} {
					if !g.allowed && g.reason != ReasonDisband && g.reason != ReasonSendBan && g.err == nil {
						rt.Fatalf("VERIF-VIOLATION C36: system device refused with reason %d (only SendBan and Disband may stop it)\n%s", g.reason, explain(i))
					}
				}
			}
			app := verifC36Applicable(cfg, world.facts, cmd)
			if len(app) >= 2 && !scoped && !cfg.storeNil {
				twoReasons = true
			}
			if (cmd.ChannelType == channelTypeGroup || cmd.ChannelType == channelTypePerson) && !cmd.RequestScoped && len(cmd.MessageScopedUIDs) == 0 {
				sawBatchedKind = true
			}
			if verifC36DoubleSuffix(cmd) {
				k.Label("channel id with the command suffix twice")
			}
			k.Label(fmt.Sprintf("outcome reason=%d err=%v", got1[i].reason, got1[i].err != nil))
			k.Label(fmt.Sprintf("channel type %d", cmd.ChannelType))
		}
		if sawBatchedKind && !cfg.storeNil && batchCalls == 0 {
			rt.Fatalf("harness: the raw-fact batch path was not exercised although group/person items were present")
		}
		descr := fmt.Sprintf("%+v|%v|%v|%q|%v", cmds, cfg.systemUIDs, cfg.personWhitelist, cfg.systemDeviceID, cfg.storeNil)
		k.Key(descr)
		for _, key := range keys {
			f := world.facts[key]
			k.Key(key.String(), f.found, f.channel.Ban, f.channel.Disband, f.channel.SendBan, f.channel.AllowStranger, f.value, f.err != nil)
		}
		k.SetNonTrivial(twoReasons && batchCalls > 0)
		k.LabelIf(twoReasons, "some command with >=2 applicable rejections")
		k.LabelIf(sawTrusted, "trusted sender or device present")
		k.LabelIf(injected > 0, "read error injected")
		k.LabelIf(batchCalls > 0, "raw-fact batch path used")
		k.LabelIf(batchCalls > 1, "several raw-fact batches (group and person)")
		k.LabelIf(len(world.unforeseen) > 0, "a path read a fact the harness had not drawn")
		k.LabelIf(cfg.storeNil, "no permission store")
		k.Sample(func() any {
			parts := make([]string, n)
			for i, cmd := range cmds {
				parts[i] = fmt.Sprintf("%s→%s/%d%s: reason=%d applicable=%v", cmd.FromUID, cmd.ChannelID, cmd.ChannelType,
					map[bool]string{true: " sysdev", false: ""}[cfg.systemDeviceID != "" && cmd.DeviceID == cfg.systemDeviceID], got1[i].reason, verifC36Applicable(cfg, world.facts, cmd))
			}
			return strings.Join(parts, "; ")
		})
	})
	kit.For(t, "C36").AddExtra("excluded_by_known_finding", verifC36Excluded.Load())
}

// TestVerifC36DoubledCommandSuffix: deterministic reproduction of the one
// place where the two paths are known to diverge — a client-chosen channel id
// that ends in the command suffix twice. checkSendPermission strips one suffix
// and re-applies it idempotently; the raw-fact person path strips, re-applies
// and strips again, so the two paths consult the deny list of different
// receivers (and the group paths forward different channel ids).
func TestVerifC36DoubledCommandSuffix(t *testing.T) {
	col := kit.For(t, "C36")
	// a sender whose canonical pair with "u2____cmd" ends in the suffix
	sender := ""
	for i := 0; i < 200 && sender == ""; i++ {
		cand := fmt.Sprintf("s%d", i)
		if strings.HasSuffix(runtimechannelid.EncodePersonChannel(cand, "u2"+runtimechannelid.CommandChannelSuffix), runtimechannelid.CommandChannelSuffix) {
			sender = cand
		}
	}
	if sender == "" {
		t.Fatalf("VERIF-MACHINERY: no sender name found")
	}
	denyU2 := channelmembers.DenylistChannelID(channelmembers.ChannelKey{ChannelID: "u2", ChannelType: channelTypePerson})
	world := &verifC36World{facts: map[verifC36Key]verifC36Fact{
		{kind: PermissionReadSubscriberContains, channelID: denyU2, channelType: 1, uid: sender}: {value: true}, // u2 blocks the sender
		{kind: PermissionReadChannel, channelID: "g1", channelType: 2}:                          {found: true, channel: metadb.Channel{ChannelID: "g1", ChannelType: 2}},
		{kind: PermissionReadSubscriberContains, channelID: "g1", channelType: 2, uid: sender}:  {value: true},
		{kind: PermissionReadChannel, channelID: "g1____cmd", channelType: 2}:                   {found: true, channel: metadb.Channel{ChannelID: "g1____cmd", ChannelType: 2}},
		{kind: PermissionReadSubscriberContains, channelID: "g1____cmd", channelType: 2, uid: sender}: {value: true},
	}}
	cmds := []SendCommand{
		{FromUID: sender, ChannelID: "u2____cmd", ChannelType: channelTypePerson, NormalizePersonChannel: true, ClientMsgNo: "single", ClientSeq: 1},
		{FromUID: sender, ChannelID: "u2____cmd____cmd", ChannelType: channelTypePerson, NormalizePersonChannel: true, ClientMsgNo: "person", ClientSeq: 2},
		{FromUID: sender, ChannelID: "g1____cmd____cmd", ChannelType: channelTypeGroup, ClientMsgNo: "group", ClientSeq: 3},
	}
	var diverged []string
	for i, cmd := range cmds {
		singleSub, batchSub := &verifC36Submitter{}, &verifC36Submitter{}
		single := New(Options{Submitter: singleSub, PermissionStore: verifC36Store{w: world}})
		batched := New(Options{Submitter: batchSub, PermissionStore: verifC36Store{w: world}, PermissionBatchStore: verifC36BatchStore{verifC36Store{w: world}}})
		res, err := single.Send(context.Background(), cmd.Clone())
		a := verifC36Verdict{reason: res.Reason, err: err}
		if seen, ok := singleSub.seen[cmd.ClientMsgNo]; ok {
			a.allowed, a.channelID = true, seen.ChannelID
		}
		out := batched.SendBatch([]SendBatchItem{{Context: context.Background(), Command: cmd.Clone()}})
		b := verifC36Verdict{reason: out[0].Result.Reason, err: out[0].Err}
		if seen, ok := batchSub.seen[cmd.ClientMsgNo]; ok {
			b.allowed, b.channelID = true, seen.ChannelID
		}
		same := verifC36Same(cmd, a, b)
		if i == 0 {
			if !same || a.reason != ReasonInBlacklist {
				t.Fatalf("VERIF-VIOLATION C36: single command suffix: per-send %v batched %v, want both InBlacklist", a, b)
			}
			continue
		}
		if !same {
			diverged = append(diverged, fmt.Sprintf("%s→%q type %d: per-send %v, batched %v", cmd.FromUID, cmd.ChannelID, cmd.ChannelType, a, b))
		}
	}
	k := col.NewCase()
	k.Key("doubled-suffix")
	k.NonTrivial()
	if len(diverged) == 0 {
		k.Label("doubled command suffix: paths agree")
		col.Commit(k)
		return
	}
	msg := strings.Join(diverged, "\n  ")
	if kit.KnownFinding("C36", verifC36DoubledSuffixSignature) {
		k.Label("known finding re-established: doubled command suffix")
		k.Sample(func() any { return "KNOWN: " + msg })
		col.Commit(k)
		t.Logf("known finding %s re-established:\n  %s", verifC36DoubledSuffixSignature, msg)
		return
	}
	t.Fatalf("VERIF-VIOLATION C36 [%s]: per-send and batched paths disagree for a channel id that carries the command suffix twice (u2 has the sender on its deny list)\n  %s", verifC36DoubledSuffixSignature, msg)
}
