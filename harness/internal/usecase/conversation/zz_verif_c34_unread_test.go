package conversation

// C34 — conversation unread counts and visibility are exact.
//
// TestVerifC34Pure: arbitrary membership rows × channel heads into
// conversationFromMembership, judged by counting over an explicit message
// list with a per-message predicate.
//
// TestVerifC34History: the real App over the real meta-DB membership table
// (written through metadb.WriteBatch like the slot FSM does) and a modelled
// channel that feeds the head hydrator; random sends, clear/set unread,
// delete, activate, retention, leave/re-join, leader outages; after every step
// List (paged) and Retry are compared with the model.

import (
	"bytes"
	"context"
	"errors"
	"fmt"
	"math"
	"sort"
	"strings"
	"testing"
	"time"

	metadb "github.com/WuKongIM/WuKongIM/pkg/db/meta"
	"pgregory.net/rapid"
	"verif.local/kit"
)

// ---------------------------------------------------------------- model ----

type verifC34Msg struct {
	seq      uint64
	from     string
	syncOnce bool // one-shot sync commands are committed but never shown as last message
	payload  []byte
}

// verifC34Head derives what the Channel Leader reports for uid, the way
// pkg/cluster/channels readLocalConversationHead does: committed high mark,
// retention floor, the user's newest own committed send, and the newest
// ordinary (non sync-once) committed message above the retention floor.
func verifC34Head(key ConversationKey, uid string, msgs []verifC34Msg, retention uint64) HydrationResult {
	h := HydrationResult{Key: key, Outcome: HydrationNoVisibleMessage, LastCommittedSeq: uint64(len(msgs)), RetentionThroughSeq: retention}
	for _, m := range msgs {
		if m.from == uid && m.seq > h.CurrentUserLastSendSeq {
			h.CurrentUserLastSendSeq = m.seq
		}
	}
	for i := len(msgs) - 1; i >= 0; i-- {
		m := msgs[i]
		if m.seq <= retention {
			break
		}
		if !m.syncOnce {
			h.LastMessage = &LastMessage{MessageID: 1000 + m.seq, MessageSeq: m.seq, FromUID: m.from, ClientMsgNo: fmt.Sprintf("c%d", m.seq),
				ServerTimestampMS: int64(m.seq) * 10, Payload: append([]byte(nil), m.payload...)}
			h.Outcome = HydrationOK
			break
		}
	}
	return h
}

// verifC34Visible: the message exists for this membership at all — it was
// committed at or after the join point, is above the user's delete-to
// boundary and above the channel's retention boundary.
func verifC34Visible(row metadb.UserChannelMembership, retention uint64, seq uint64) bool {
	return seq >= row.JoinSeq && seq > row.DeletedToSeq && seq > retention
}

// verifC34Expect computes the expected conversation by explicit enumeration.
func verifC34Expect(row metadb.UserChannelMembership, uid string, msgs []verifC34Msg, retention uint64) (included bool, unread uint64, last *verifC34Msg) {
	ownLast := uint64(0)
	for _, m := range msgs {
		if m.from == uid && m.seq > ownLast {
			ownLast = m.seq
		}
	}
	postJoinPostDelete := false
	for i := range msgs {
		m := &msgs[i]
		if m.seq >= row.JoinSeq && m.seq > row.DeletedToSeq {
			postJoinPostDelete = true
		}
		if !verifC34Visible(row, retention, m.seq) {
			continue
		}
		if m.seq > row.ReadSeq && m.seq > ownLast {
			unread++
		}
		if !m.syncOnce {
			last = m
		}
	}
	included = postJoinPostDelete || row.ActivatedAt > 0
	return included, unread, last
}

func verifC34CheckConversation(fatalf func(string, ...any), where string, got Conversation, row metadb.UserChannelMembership, uid string, msgs []verifC34Msg, retention uint64) {
	_, unread, last := verifC34Expect(row, uid, msgs, retention)
	if got.Unread != unread {
		fatalf("VERIF-VIOLATION C34: %s: unread=%d, counting the message list gives %d\n row=%+v retention=%d\n messages=%s", where, got.Unread, unread, row, retention, verifC34Msgs(msgs))
	}
	switch {
	case last == nil && got.LastMessage != nil:
		fatalf("VERIF-VIOLATION C34: %s: last message seq %d shown although no message is visible to this membership\n row=%+v retention=%d\n messages=%s", where, got.LastMessage.MessageSeq, row, retention, verifC34Msgs(msgs))
	case last != nil && got.LastMessage == nil:
		fatalf("VERIF-VIOLATION C34: %s: no last message shown, expected seq %d\n row=%+v retention=%d\n messages=%s", where, last.seq, row, retention, verifC34Msgs(msgs))
	case last != nil:
		if got.LastMessage.MessageSeq != last.seq || got.LastMessage.FromUID != last.from || !bytes.Equal(got.LastMessage.Payload, last.payload) {
			fatalf("VERIF-VIOLATION C34: %s: last message seq=%d from=%q, expected seq=%d from=%q\n row=%+v retention=%d\n messages=%s", where,
				got.LastMessage.MessageSeq, got.LastMessage.FromUID, last.seq, last.from, row, retention, verifC34Msgs(msgs))
		}
	}
	if got.LastMessage != nil && !verifC34Visible(row, retention, got.LastMessage.MessageSeq) {
		fatalf("VERIF-VIOLATION C34: %s: a pre-join, deleted or retained message (seq %d) is shown as last message\n row=%+v retention=%d", where, got.LastMessage.MessageSeq, row, retention)
	}
	if got.ChannelID != row.ChannelID || got.ChannelType != row.ChannelType || got.JoinSeq != row.JoinSeq || got.ReadSeq != row.ReadSeq ||
		got.DeletedToSeq != row.DeletedToSeq || got.ActiveAt != row.ActivatedAt {
		fatalf("VERIF-VIOLATION C34: %s: conversation row fields %+v do not reflect the membership %+v", where, got, row)
	}
}

func verifC34Msgs(msgs []verifC34Msg) string {
	var sb strings.Builder
	for _, m := range msgs {
		fmt.Fprintf(&sb, "%d:%s", m.seq, m.from)
		if m.syncOnce {
			sb.WriteString("(once)")
		}
		sb.WriteByte(' ')
	}
	return sb.String()
}

// ----------------------------------------------------------------- pure ----

// verifC34Seq draws a boundary for a list of n messages. low=true keeps it in
// the lower part of the list so that several messages stay above it.
func verifC34Seq(t *rapid.T, label string, n uint64, low bool) uint64 {
	if low {
		return uint64(rapid.IntRange(0, int(n/2)).Draw(t, label+"Low"))
	}
	switch rapid.IntRange(0, 7).Draw(t, label+"Kind") {
	case 0:
		return 0
	case 1:
		return n
	case 2:
		return n + 1
	case 3:
		return n + uint64(rapid.IntRange(2, 5).Draw(t, label+"Beyond"))
	default:
		return uint64(rapid.IntRange(0, int(n)).Draw(t, label))
	}
}

func TestVerifC34Pure(t *testing.T) {
	kit.Check(t, "C34", func(rt *rapid.T, k *kit.Case) {
		const uid = "me"
		n := uint64(kit.LenClass(60).Draw(rt, "messages"))
		msgs := make([]verifC34Msg, n)
		ownShare := rapid.IntRange(0, 3).Draw(rt, "ownShare") // 0: the user never sends; 1: early sends only; else anywhere
		for i := range msgs {
			from := rapid.SampledFrom([]string{"a", "b", uid}).Draw(rt, "from")
			if from == uid && (ownShare == 0 || ownShare == 1 && uint64(i) > n/3) {
				from = "a"
			}
			msgs[i] = verifC34Msg{seq: uint64(i + 1), from: from, syncOnce: rapid.IntRange(0, 5).Draw(rt, "syncOnce") == 0, payload: []byte(fmt.Sprintf("p%d", i+1))}
		}
		low := rapid.IntRange(0, 2).Draw(rt, "lowBoundaries") > 0
		row := metadb.UserChannelMembership{UID: uid, ChannelID: "g1", ChannelType: 2,
			JoinSeq: verifC34Seq(rt, "join", n, low), ReadSeq: verifC34Seq(rt, "read", n, low), DeletedToSeq: verifC34Seq(rt, "deleted", n, low),
			UpdatedAt: int64(rapid.IntRange(0, 9).Draw(rt, "updatedAt"))}
		if rapid.Bool().Draw(rt, "activated") {
			row.ActivatedAt = int64(rapid.IntRange(1, 1000).Draw(rt, "activatedAt"))
		}
		retention := uint64(0)
		if rapid.Bool().Draw(rt, "hasRetention") {
			hi := n // the retention floor never passes the committed mark
			if low {
				hi = n / 2
			}
			retention = uint64(rapid.IntRange(0, int(hi)).Draw(rt, "retention"))
		}
		key := ConversationKey{ChannelID: "g1", ChannelType: 2}
		head := verifC34Head(key, uid, msgs, retention)
		headCopy := head
		var payloadCopy []byte
		if head.LastMessage != nil {
			payloadCopy = append([]byte(nil), head.LastMessage.Payload...)
		}
		got, ok := conversationFromMembership(row, head)
		included, unread, last := verifC34Expect(row, uid, msgs, retention)
		if ok != included {
			rt.Fatalf("VERIF-VIOLATION C34: conversation returned=%v, expected %v (post-join/post-delete message exists or activated)\n row=%+v retention=%d messages=%s", ok, included, row, retention, verifC34Msgs(msgs))
		}
		if ok {
			verifC34CheckConversation(rt.Fatalf, "conversationFromMembership", got, row, uid, msgs, retention)
			if got.LastMessage != nil {
				got.LastMessage.Payload = append(got.LastMessage.Payload, 'x')
				if len(got.LastMessage.Payload) > 1 {
					got.LastMessage.Payload[0] ^= 0xff
				}
				if !bytes.Equal(head.LastMessage.Payload, payloadCopy) {
					rt.Fatalf("VERIF-VIOLATION C34: returned last message aliases the hydrated payload")
				}
			}
		}
		if head.LastCommittedSeq != headCopy.LastCommittedSeq || head.RetentionThroughSeq != headCopy.RetentionThroughSeq {
			rt.Fatalf("harness: head modified")
		}
		floors := 0
		for _, f := range []uint64{row.JoinSeq, row.DeletedToSeq, retention, row.ReadSeq, head.CurrentUserLastSendSeq} {
			if f > 0 && f <= n {
				floors++
			}
		}
		k.Key(row.JoinSeq, row.ReadSeq, row.DeletedToSeq, row.ActivatedAt, retention, verifC34Msgs(msgs))
		k.SetNonTrivial(n > 0 && floors >= 2)
		k.LabelIf(!ok, "omitted (nothing visible, not activated)")
		k.LabelIf(ok && unread == 0, "unread 0")
		k.LabelIf(ok && unread > 0, "unread > 0")
		k.LabelIf(ok && last == nil, "returned without last message")
		k.LabelIf(ok && last != nil && last.seq < n, "last message below the committed mark (sync-once tail)")
		k.LabelIf(head.LastMessage != nil && last == nil, "hydrated last message hidden by join/delete floor")
		k.LabelIf(row.JoinSeq > n, "joined after the last message")
		k.LabelIf(retention > 0, "retention floor")
		k.LabelIf(head.CurrentUserLastSendSeq > row.ReadSeq && head.CurrentUserLastSendSeq > 0, "own send above read cursor")
		k.Sample(func() any {
			return fmt.Sprintf("n=%d join=%d read=%d deleted=%d retention=%d ownLast=%d activated=%d ⇒ included=%v unread=%d", n, row.JoinSeq, row.ReadSeq,
				row.DeletedToSeq, retention, head.CurrentUserLastSendSeq, row.ActivatedAt, ok, unread)
		})
	})
}

// TestVerifC34PureExtremes: the same function on heads far from any list
// (uint64 boundaries): unread is the size of the integer interval
// (effective read, last committed], never negative, never wrapped.
func TestVerifC34PureExtremes(t *testing.T) {
	kit.Check(t, "C34", func(rt *rapid.T, k *kit.Case) {
		e := kit.Uint64Edge()
		row := metadb.UserChannelMembership{UID: "me", ChannelID: "g1", ChannelType: 2, JoinSeq: e.Draw(rt, "join"), ReadSeq: e.Draw(rt, "read"),
			DeletedToSeq: e.Draw(rt, "deleted"), ActivatedAt: int64(rapid.IntRange(0, 1).Draw(rt, "activated"))}
		head := HydrationResult{Key: ConversationKey{ChannelID: "g1", ChannelType: 2}, Outcome: HydrationOK, LastCommittedSeq: e.Draw(rt, "last"),
			RetentionThroughSeq: e.Draw(rt, "retention"), CurrentUserLastSendSeq: e.Draw(rt, "ownLast")}
		if rapid.Bool().Draw(rt, "hasLastMessage") {
			seq := e.Draw(rt, "lastMessageSeq")
			if seq > head.LastCommittedSeq {
				seq = head.LastCommittedSeq // a head never shows an uncommitted message
			}
			head.LastMessage = &LastMessage{MessageSeq: seq, Payload: []byte("p")}
		}
		got, ok := conversationFromMembership(row, head)
		// effective read point: the largest of the five boundaries (join point j hides 1..j-1)
		joinFloor := row.JoinSeq
		if joinFloor > 0 {
			joinFloor--
		}
		visFloor := joinFloor
		for _, f := range []uint64{row.DeletedToSeq, head.RetentionThroughSeq} {
			if f > visFloor {
				visFloor = f
			}
		}
		eff := visFloor
		for _, f := range []uint64{row.ReadSeq, head.CurrentUserLastSendSeq} {
			if f > eff {
				eff = f
			}
		}
		want := uint64(0)
		if head.LastCommittedSeq > eff {
			want = head.LastCommittedSeq - eff
		}
		included := (head.LastCommittedSeq >= row.JoinSeq && head.LastCommittedSeq > row.DeletedToSeq) || row.ActivatedAt > 0
		if ok != included {
			rt.Fatalf("VERIF-VIOLATION C34: returned=%v expected %v row=%+v head=%+v", ok, included, row, head)
		}
		if ok {
			if got.Unread != want || got.Unread > head.LastCommittedSeq {
				rt.Fatalf("VERIF-VIOLATION C34: unread=%d, interval (effective read %d, last %d] has %d members\n row=%+v head=%+v", got.Unread, eff, head.LastCommittedSeq, want, row, head)
			}
			if got.LastMessage != nil && (got.LastMessage.MessageSeq <= visFloor || head.LastMessage == nil) {
				rt.Fatalf("VERIF-VIOLATION C34: last message seq %d at or below the visibility floor %d\n row=%+v head=%+v", got.LastMessage.MessageSeq, visFloor, row, head)
			}
			if got.LastMessage == nil && head.LastMessage != nil && head.LastMessage.MessageSeq > visFloor {
				rt.Fatalf("VERIF-VIOLATION C34: visible last message seq %d (floor %d) not shown\n row=%+v head=%+v", head.LastMessage.MessageSeq, visFloor, row, head)
			}
		}
		k.Key(row.JoinSeq, row.ReadSeq, row.DeletedToSeq, row.ActivatedAt, head.LastCommittedSeq, head.RetentionThroughSeq, head.CurrentUserLastSendSeq, head.LastMessage != nil)
		k.SetNonTrivial(ok && head.LastCommittedSeq > 0)
		k.LabelIf(head.LastCommittedSeq == math.MaxUint64 || row.JoinSeq == math.MaxUint64 || eff == math.MaxUint64, "uint64 boundary value")
		k.Label("extreme-value head")
		k.Sample(func() any { return fmt.Sprintf("row=%+v head.last=%d ret=%d own=%d ⇒ unread=%d", row, head.LastCommittedSeq, head.RetentionThroughSeq, head.CurrentUserLastSendSeq, got.Unread) })
	})
}

// -------------------------------------------------------------- history ----

type verifC34Channel struct {
	key         ConversationKey
	msgs        []verifC34Msg
	retention   uint64
	unavailable bool // Channel Leader temporarily unreachable
	disbanded   bool // terminal: head read reports channel not found

	// model of the UID-owned membership row (FLOW.md "Personal state mutations")
	member        bool
	row           metadb.UserChannelMembership
	sourceVersion uint64
}

type verifC34Env struct {
	uid      string
	db       *metadb.DB
	hashSlot uint16
	channels []*verifC34Channel
	now      int64
}

func (e *verifC34Env) channel(id string, typ int64) *verifC34Channel {
	for _, c := range e.channels {
		if c.key.ChannelID == id && c.key.ChannelType == typ {
			return c
		}
	}
	return nil
}

// HeadHydrator fed by the model
func (e *verifC34Env) HydrateConversationHeads(_ context.Context, uid string, memberships []metadb.UserChannelMembership) ([]HydrationResult, error) {
	out := make([]HydrationResult, len(memberships))
	for i, m := range memberships {
		c := e.channel(m.ChannelID, m.ChannelType)
		key := ConversationKey{ChannelID: m.ChannelID, ChannelType: m.ChannelType}
		switch {
		case c == nil || c.disbanded:
			out[i] = HydrationResult{Key: key, Outcome: HydrationDelete}
		case c.unavailable:
			out[i] = HydrationResult{Key: key, Outcome: HydrationRetryable}
		default:
			out[i] = verifC34Head(key, uid, c.msgs, c.retention)
		}
	}
	return out, nil
}

// DirectoryStore and MembershipMutationStore over the real meta DB
func (e *verifC34Env) ListUserChannelMembershipPage(ctx context.Context, uid string, after metadb.UserChannelMembershipCursor, limit int) ([]metadb.UserChannelMembership, metadb.UserChannelMembershipCursor, bool, error) {
	return e.db.ForHashSlot(e.hashSlot).ListUserChannelMembershipPage(ctx, uid, after, limit)
}

func (e *verifC34Env) GetUserChannelMembership(ctx context.Context, uid, channelID string, channelType int64) (metadb.UserChannelMembership, bool, error) {
	row, err := e.db.ForHashSlot(e.hashSlot).GetUserChannelMembership(ctx, uid, channelID, channelType)
	if errors.Is(err, metadb.ErrNotFound) {
		return metadb.UserChannelMembership{}, false, nil
	}
	return row, err == nil, err
}

func (e *verifC34Env) commit(stage func(*metadb.WriteBatch) error) error {
	b := e.db.NewWriteBatch()
	defer b.Close()
	if err := stage(b); err != nil {
		return err
	}
	return b.Commit()
}

func (e *verifC34Env) AdvanceUserChannelMembershipReadSeq(_ context.Context, uid, channelID string, channelType int64, readSeq uint64, updatedAt int64) error {
	return e.commit(func(b *metadb.WriteBatch) error {
		return b.AdvanceUserChannelMembershipReadSeq(e.hashSlot, uid, metadb.ChannelKey{ChannelID: channelID, ChannelType: channelType}, readSeq, updatedAt)
	})
}

func (e *verifC34Env) HideUserChannelMembership(_ context.Context, uid, channelID string, channelType int64, deletedToSeq uint64, updatedAt int64) error {
	return e.commit(func(b *metadb.WriteBatch) error {
		return b.HideUserChannelMembership(e.hashSlot, uid, metadb.ChannelKey{ChannelID: channelID, ChannelType: channelType}, deletedToSeq, updatedAt)
	})
}

func (e *verifC34Env) ActivateUserChannelMembership(_ context.Context, uid, channelID string, channelType int64, activatedAt, updatedAt int64) error {
	return e.commit(func(b *metadb.WriteBatch) error {
		return b.ActivateUserChannelMembership(e.hashSlot, uid, metadb.ChannelKey{ChannelID: channelID, ChannelType: channelType}, activatedAt, updatedAt)
	})
}

func verifC34Floor(c *verifC34Channel) uint64 {
	f := uint64(0)
	if c.row.JoinSeq > 0 {
		f = c.row.JoinSeq - 1
	}
	if c.row.DeletedToSeq > f {
		f = c.row.DeletedToSeq
	}
	if c.retention > f {
		f = c.retention
	}
	return f
}

func TestVerifC34History(t *testing.T) {
	kit.Check(t, "C34", func(rt *rapid.T, k *kit.Case) {
		dir, cleanup := kit.TempDir()
		defer cleanup()
		db, err := metadb.Open(dir)
		if err != nil {
			rt.Fatalf("VERIF-MACHINERY: open meta db: %v", err)
		}
		defer db.Close()
		env := &verifC34Env{uid: "me", db: db, hashSlot: uint16(rapid.IntRange(0, 3).Draw(rt, "hashSlot")), now: 1_000}
		app := New(Options{Directory: env, Hydrator: env, MembershipMutations: env, Now: func() time.Time { return time.Unix(0, env.now) }})
		ctx := context.Background()
		nCh := rapid.IntRange(1, 3).Draw(rt, "channels")
		for i := 0; i < nCh; i++ {
			env.channels = append(env.channels, &verifC34Channel{key: ConversationKey{ChannelID: fmt.Sprintf("g%d", i+1), ChannelType: int64(rapid.SampledFrom([]int{1, 2}).Draw(rt, "channelType"))}})
		}
		pick := func(t *rapid.T) *verifC34Channel {
			return env.channels[rapid.IntRange(0, nCh-1).Draw(t, "channel")]
		}
		send := func(t *rapid.T, c *verifC34Channel, from string, once bool) {
			seq := uint64(len(c.msgs) + 1)
			c.msgs = append(c.msgs, verifC34Msg{seq: seq, from: from, syncOnce: once, payload: []byte(fmt.Sprintf("%s-%d", c.key.ChannelID, seq))})
		}
		join := func(t *rapid.T, c *verifC34Channel, joinSeq uint64) {
			c.sourceVersion++
			m := metadb.UserChannelMembership{UID: env.uid, ChannelID: c.key.ChannelID, ChannelType: c.key.ChannelType, JoinSeq: joinSeq,
				SourceVersion: c.sourceVersion, UpdatedAt: env.now}
			if err := db.ForHashSlot(env.hashSlot).UpsertUserChannelMembership(ctx, m); err != nil {
				t.Fatalf("VERIF-MACHINERY: upsert membership: %v", err)
			}
			c.member, c.row = true, m
		}
		var flags struct {
			clear, set, del, activate, retention, rejoin, ownSend, outage, setAfterDelete, sendAfterDelete bool
		}
		steps := 0
		readSeqSeen := map[ConversationKey]uint64{}

		// judge compares List (paged) and Retry with the model.
		judge := func(t *rapid.T) {
			seenItems := map[ConversationKey]Conversation{}
			seenDeletes := map[ConversationKey]bool{}
			seenUnresolved := map[ConversationKey]bool{}
			cursor := Cursor{}
			limit := rapid.SampledFrom([]int{0, 1, 2, 200}).Draw(t, "listLimit")
			for page := 0; ; page++ {
				res, err := app.List(ctx, ListRequest{UID: env.uid, Cursor: cursor, Limit: limit})
				if err != nil {
					t.Fatalf("List: %v", err)
				}
				for _, it := range res.Items {
					key := ConversationKey{ChannelID: it.ChannelID, ChannelType: it.ChannelType}
					if _, dup := seenItems[key]; dup {
						t.Fatalf("VERIF-VIOLATION C34: List returned %v twice in one pass", key)
					}
					seenItems[key] = it
				}
				for _, d := range res.Deletes {
					seenDeletes[d] = true
				}
				for _, u := range res.Unresolved {
					seenUnresolved[u] = true
				}
				if res.Done {
					break
				}
				if page > 20 {
					t.Fatalf("List does not terminate")
				}
				cursor = res.NextCursor
			}
			var keys []ConversationKey
			for _, c := range env.channels {
				keys = append(keys, c.key)
			}
			retry, err := app.Retry(ctx, RetryRequest{UID: env.uid, Keys: keys})
			if err != nil {
				t.Fatalf("Retry: %v", err)
			}
			retryItems := map[ConversationKey]Conversation{}
			for _, it := range retry.Items {
				retryItems[ConversationKey{ChannelID: it.ChannelID, ChannelType: it.ChannelType}] = it
			}
			for _, c := range env.channels {
				listItem, inList := seenItems[c.key]
				retryItem, inRetry := retryItems[c.key]
				stored, found, err := env.GetUserChannelMembership(ctx, env.uid, c.key.ChannelID, c.key.ChannelType)
				if err != nil {
					t.Fatalf("get membership: %v", err)
				}
				if !c.member && c.sourceVersion == 0 {
					if found || inList || inRetry {
						t.Fatalf("VERIF-VIOLATION C34: %v was never joined but appears (stored=%v list=%v retry=%v)", c.key, found, inList, inRetry)
					}
					continue
				}
				if !found {
					t.Fatalf("harness: membership row of %v vanished", c.key)
				}
				if stored.JoinSeq != c.row.JoinSeq || stored.ReadSeq != c.row.ReadSeq || stored.DeletedToSeq != c.row.DeletedToSeq ||
					stored.ActivatedAt != c.row.ActivatedAt || stored.Tombstone != !c.member {
					t.Fatalf("VERIF-VIOLATION C34: stored membership of %v is %+v, the documented mutations give %+v (member=%v)", c.key, stored, c.row, c.member)
				}
				if c.member {
					if prev, ok := readSeqSeen[c.key]; ok && stored.ReadSeq < prev {
						t.Fatalf("VERIF-VIOLATION C34: read_seq of %v went back from %d to %d within one membership incarnation", c.key, prev, stored.ReadSeq)
					}
					readSeqSeen[c.key] = stored.ReadSeq
				}
				wantIncluded, wantUnread, _ := verifC34Expect(c.row, env.uid, c.msgs, c.retention)
				switch {
				case !c.member:
					if inList || inRetry || !seenDeletes[c.key] {
						t.Fatalf("VERIF-VIOLATION C34: left channel %v: list=%v retry=%v delete-emitted=%v", c.key, inList, inRetry, seenDeletes[c.key])
					}
				case c.disbanded:
					if inList || inRetry || !seenDeletes[c.key] {
						t.Fatalf("VERIF-VIOLATION C34: disbanded channel %v: list=%v retry=%v delete-emitted=%v", c.key, inList, inRetry, seenDeletes[c.key])
					}
				case c.unavailable:
					if inList || inRetry || !seenUnresolved[c.key] {
						t.Fatalf("VERIF-VIOLATION C34: unreachable channel %v must be unresolved: list=%v retry=%v unresolved=%v", c.key, inList, inRetry, seenUnresolved[c.key])
					}
				default:
					if inList != wantIncluded || inRetry != wantIncluded {
						t.Fatalf("VERIF-VIOLATION C34: %v listed=%v retried=%v, expected %v\n row=%+v retention=%d messages=%s", c.key, inList, inRetry, wantIncluded, c.row, c.retention, verifC34Msgs(c.msgs))
					}
					if wantIncluded {
						verifC34CheckConversation(t.Fatalf, fmt.Sprintf("List %v", c.key), listItem, c.row, env.uid, c.msgs, c.retention)
						verifC34CheckConversation(t.Fatalf, fmt.Sprintf("Retry %v", c.key), retryItem, c.row, env.uid, c.msgs, c.retention)
						_ = wantUnread
					}
				}
			}
		}
		// unreadOf reads the unread count the user currently sees for c (0 when omitted).
		unreadOf := func(t *rapid.T, c *verifC34Channel) (uint64, bool) {
			res, err := app.Retry(ctx, RetryRequest{UID: env.uid, Keys: []ConversationKey{c.key}})
			if err != nil {
				t.Fatalf("Retry: %v", err)
			}
			if len(res.Items) == 1 {
				return res.Items[0].Unread, true
			}
			return 0, false
		}
		mutationExpectation := func(c *verifC34Channel) error {
			switch {
			case !c.member, c.disbanded:
				return metadb.ErrNotFound
			case c.unavailable:
				return ErrRouteNotReady
			}
			return nil
		}
		checkErr := func(t *rapid.T, what string, c *verifC34Channel, err error) bool {
			want := mutationExpectation(c)
			if want == nil {
				if err != nil {
					t.Fatalf("%s(%v): %v", what, c.key, err)
				}
				return true
			}
			if !errors.Is(err, want) {
				t.Fatalf("VERIF-VIOLATION C34: %s on %v (member=%v disbanded=%v unavailable=%v) returned %v, want %v", what, c.key, c.member, c.disbanded, c.unavailable, err, want)
			}
			return false
		}

		// initial memberships: some channels already have history
		for _, c := range env.channels {
			for i := rapid.IntRange(0, 12).Draw(rt, "preHistory"); i > 0; i-- {
				send(rt, c, rapid.SampledFrom([]string{"a", "b", env.uid}).Draw(rt, "preFrom"), false)
			}
			if rapid.IntRange(0, 4).Draw(rt, "joinedInitially") > 0 {
				joinSeq := uint64(rapid.IntRange(0, len(c.msgs)+1).Draw(rt, "initialJoinSeq"))
				join(rt, c, joinSeq)
			}
		}
		judge(rt)

		rt.Repeat(map[string]func(*rapid.T){
			"send": func(t *rapid.T) {
				c := pick(t)
				if c.disbanded {
					t.Skip()
				}
				from := rapid.SampledFrom([]string{"a", "b", "a", env.uid}).Draw(t, "from")
				once := rapid.IntRange(0, 6).Draw(t, "syncOnce") == 0
				send(t, c, from, once)
				if from == env.uid && c.member {
					flags.ownSend = true
				}
				if c.member && c.row.DeletedToSeq > 0 {
					flags.sendAfterDelete = true
				}
			},
			"sendBurst": func(t *rapid.T) {
				c := pick(t)
				if c.disbanded {
					t.Skip()
				}
				for i := rapid.IntRange(2, 6).Draw(t, "burst"); i > 0; i-- {
					send(t, c, rapid.SampledFrom([]string{"a", "b"}).Draw(t, "from"), false)
				}
				if c.member && c.row.DeletedToSeq > 0 {
					flags.sendAfterDelete = true
				}
			},
			"sendOwn": func(t *rapid.T) {
				c := pick(t)
				if c.disbanded || !c.member {
					t.Skip()
				}
				send(t, c, env.uid, false)
				flags.ownSend = true
			},
			"clearUnread": func(t *rapid.T) {
				c := pick(t)
				env.now += 10
				err := app.ClearUnread(ctx, ClearUnreadCommand{UID: env.uid, ChannelID: c.key.ChannelID, ChannelType: uint8(c.key.ChannelType)})
				if !checkErr(t, "ClearUnread", c, err) {
					return
				}
				if last := uint64(len(c.msgs)); last > c.row.ReadSeq {
					c.row.ReadSeq = last
				}
				if u, shown := unreadOf(t, c); shown && u != 0 {
					t.Fatalf("VERIF-VIOLATION C34: unread is %d right after ClearUnread on %v", u, c.key)
				}
				flags.clear = true
			},
			"setUnread": func(t *rapid.T) {
				c := pick(t)
				n := rapid.SampledFrom([]int{0, 1, 2, 3, 5, 8, 100}).Draw(t, "unreadN")
				before, shownBefore := uint64(0), false
				if mutationExpectation(c) == nil {
					before, shownBefore = unreadOf(t, c)
				}
				env.now += 10
				err := app.SetUnread(ctx, SetUnreadCommand{UID: env.uid, ChannelID: c.key.ChannelID, ChannelType: uint8(c.key.ChannelType), Unread: n})
				if !checkErr(t, "SetUnread", c, err) {
					return
				}
				// FLOW.md: compute max(visibility_floor, last_committed_seq - N); monotonically advance read_seq
				target := verifC34Floor(c)
				if last := uint64(len(c.msgs)); uint64(n) < last && last-uint64(n) > target {
					target = last - uint64(n)
				}
				if target > c.row.ReadSeq {
					c.row.ReadSeq = target
				}
				after, shownAfter := unreadOf(t, c)
				if shownAfter && after > uint64(n) {
					t.Fatalf("VERIF-VIOLATION C34: unread is %d after SetUnread(%d) on %v", after, n, c.key)
				}
				if shownBefore && shownAfter {
					want := before
					if uint64(n) < want {
						want = uint64(n)
					}
					if after != want {
						t.Fatalf("VERIF-VIOLATION C34: SetUnread(%d) on %v turned unread %d into %d, expected min(before, N)=%d", n, c.key, before, after, want)
					}
				}
				flags.set = true
				if c.row.DeletedToSeq > 0 {
					flags.setAfterDelete = true
				}
			},
			"deleteConversation": func(t *rapid.T) {
				c := pick(t)
				env.now += 10
				err := app.DeleteConversation(ctx, DeleteConversationCommand{UID: env.uid, ChannelID: c.key.ChannelID, ChannelType: uint8(c.key.ChannelType)})
				if !checkErr(t, "DeleteConversation", c, err) {
					return
				}
				if last := uint64(len(c.msgs)); last > c.row.DeletedToSeq {
					c.row.DeletedToSeq = last
				}
				c.row.ActivatedAt = 0
				if _, shown := unreadOf(t, c); shown {
					t.Fatalf("VERIF-VIOLATION C34: %v still listed right after DeleteConversation", c.key)
				}
				flags.del = true
			},
			"activate": func(t *rapid.T) {
				c := pick(t)
				env.now += 10
				err := app.ActivateConversation(ctx, ActivateConversationCommand{UID: env.uid, ChannelID: c.key.ChannelID, ChannelType: uint8(c.key.ChannelType)})
				switch {
				case c.sourceVersion == 0: // never joined
					if !errors.Is(err, metadb.ErrNotFound) {
						t.Fatalf("Activate on a missing membership: %v", err)
					}
				case !c.member: // tombstone ignores personal-state commands
					if err != nil {
						t.Fatalf("Activate on a tombstoned membership: %v", err)
					}
				default:
					if err != nil {
						t.Fatalf("Activate(%v): %v", c.key, err)
					}
					if env.now > c.row.ActivatedAt {
						c.row.ActivatedAt = env.now
					}
					flags.activate = true
				}
			},
			"retention": func(t *rapid.T) {
				c := pick(t)
				if len(c.msgs) == 0 {
					t.Skip()
				}
				to := uint64(rapid.IntRange(1, len(c.msgs)).Draw(t, "retainThrough"))
				if to > c.retention {
					c.retention = to
					flags.retention = true
				}
			},
			"leaveOrRejoin": func(t *rapid.T) {
				c := pick(t)
				env.now += 10
				if c.member {
					c.sourceVersion++
					tomb := metadb.UserChannelMembership{UID: env.uid, ChannelID: c.key.ChannelID, ChannelType: c.key.ChannelType, Tombstone: true,
						TombstoneAt: env.now, SourceVersion: c.sourceVersion, UpdatedAt: env.now}
					if err := db.ForHashSlot(env.hashSlot).UpsertUserChannelMembership(ctx, tomb); err != nil {
						t.Fatalf("VERIF-MACHINERY: tombstone: %v", err)
					}
					c.member = false
					delete(readSeqSeen, c.key)
					return
				}
				join(t, c, uint64(len(c.msgs)+1))
				flags.rejoin = true
			},
			"leaderOutage": func(t *rapid.T) {
				c := pick(t)
				c.unavailable = !c.unavailable
				flags.outage = true
			},
			"disband": func(t *rapid.T) {
				if rapid.IntRange(0, 3).Draw(t, "reallyDisband") != 0 {
					t.Skip()
				}
				c := pick(t)
				c.disbanded = true
			},
			"": func(t *rapid.T) {
				steps++
				judge(t)
			},
		})
		// final: bring every leader back and judge once more
		for _, c := range env.channels {
			c.unavailable = false
		}
		judge(rt)

		var sb strings.Builder
		for _, c := range env.channels {
			fmt.Fprintf(&sb, "%v member=%v row=%+v ret=%d msgs=%s|", c.key, c.member, c.row, c.retention, verifC34Msgs(c.msgs))
		}
		k.Key(sb.String(), steps)
		kinds := 0
		for _, b := range []bool{flags.clear, flags.set, flags.del, flags.retention, flags.rejoin, flags.ownSend} {
			if b {
				kinds++
			}
		}
		k.SetNonTrivial(kinds >= 3)
		k.LabelIf(flags.clear, "history with ClearUnread")
		k.LabelIf(flags.set, "history with SetUnread")
		k.LabelIf(flags.del, "history with DeleteConversation")
		k.LabelIf(flags.sendAfterDelete, "message committed after a delete")
		k.LabelIf(flags.setAfterDelete, "SetUnread after a delete")
		k.LabelIf(flags.activate, "history with Activate")
		k.LabelIf(flags.retention, "history with retention advance")
		k.LabelIf(flags.rejoin, "history with leave and re-join")
		k.LabelIf(flags.ownSend, "history with own send")
		k.LabelIf(flags.outage, "history with leader outage")
		k.LabelIf(steps >= 20, "history >= 20 steps")
		keys := make([]string, 0)
		for _, c := range env.channels {
			keys = append(keys, fmt.Sprintf("%s: %d msgs, row{join=%d read=%d del=%d act=%d} ret=%d", c.key.ChannelID, len(c.msgs), c.row.JoinSeq, c.row.ReadSeq, c.row.DeletedToSeq, c.row.ActivatedAt, c.retention))
		}
		sort.Strings(keys)
		k.Sample(func() any { return fmt.Sprintf("%d steps; %s", steps, strings.Join(keys, "; ")) })
	})
}
