package app

import (
	"encoding/binary"
	"encoding/json"
	"fmt"
	"os"
	"runtime"
	"sort"
	"strconv"
	"strings"
	"sync"
	"sync/atomic"
	"testing"
	"time"

	"pgregory.net/rapid"
	"verif.local/kit"
)

// C30 — message ids allocated by a node are unique and strictly increasing
// across concurrent callers; once a restore floor is set (SetFloor returned
// nil) no id at or below it is issued; a fence the natural clock has not yet
// passed is rejected and never synthesised into the allocator.
//
// Oracle facts used (all derived from the contract of nodeMessageIDs and of
// snowflake.Node.Generate, which is strictly increasing under its mutex):
//   - ids returned by Next are pairwise distinct;
//   - Next X returned before Next Y was called  ⇒ id(X) < id(Y);
//   - SetFloor(f) returned nil before Next Y was called ⇒ id(Y) > f;
//   - SetFloor(f) == nil ⇒ f < any id generated after the call returned;
//   - SetFloor(f) != nil ⇒ f > any id generated before the call started
//     (the rejection is documented only for a fence the clock has not passed);
//   - the floor never holds a value that the natural generator has not yet
//     produced ("never synthesizes future IDs") and, at quiescence, is at
//     least the greatest id handed out ("floor is the greatest naturally
//     generated message ID in this process").

const (
	verifC30OpNext = iota
	verifC30OpYield
	verifC30OpFloorZero
	verifC30OpFloorOwnLast   // an id this goroutine already got from Next
	verifC30OpFloorOwnFirst  // the first id this goroutine got
	verifC30OpFloorShared    // the id most recently published by any goroutine
	verifC30OpFloorPast      // own last id minus Param milliseconds (not an issued id)
	verifC30OpFloorNearStep  // shared last id plus Param sequence steps (may or may not be passed yet)
	verifC30OpFloorNearMs    // shared last id plus Param milliseconds
	verifC30OpFloorFarFuture // shared last id plus Param hours
	// uint64 boundary classes (a restored maximum is any uint64 found in the
	// restored data, not necessarily a positive-int64 Snowflake value)
	verifC30OpFloorInt63Edge  // (1<<63 - 1) - Off
	verifC30OpFloorTopBit     // (1<<63) + Off
	verifC30OpFloorMaxU64     // MaxUint64 - Off
	verifC30OpFloorTopShaped  // 1<<63 | a Snowflake-shaped id (Param selects: own last/own first/shared/fresh probe/own last - 1000 ms)
	verifC30OpFloorTopRandom  // 1<<63 | Off (63 generated bits)
	verifC30OpFloorSameMs     // millisecond of a fresh probe (+Param ms), node bits chosen by NodeRel, step bits by StepRel/Off
	verifC30OpKinds
)

const (
	verifC30OldFloorKinds = verifC30OpFloorFarFuture - verifC30OpFloorZero + 1
	verifC30Top           = uint64(1) << 63
)

var verifC30OpNames = [...]string{"next", "yield", "floor0", "floorOwnLast", "floorOwnFirst", "floorShared", "floorPast", "floorNearStep", "floorNearMs", "floorFar",
	"floorInt63Edge", "floorTopBit", "floorMaxU64", "floorTopShaped", "floorTopRandom", "floorSameMs"}

type verifC30Op struct {
	Kind    int
	Param   int
	Off     uint64 `json:",omitempty"`
	NodeRel int    `json:",omitempty"` // same-ms fence: -2 node 0, -1 own node-1, 0 own node, +1 own node+1, +2 node 1023
	StepRel int    `json:",omitempty"` // same-ms fence: -2 step 0, -1 probe step-Off, 0 probe step, +1 probe step+Off, +2 step 4095
}

type verifC30Rec struct {
	G          int    `json:"g"`
	I          int    `json:"i"`
	Kind       string `json:"kind"`
	Start      uint64 `json:"start"`
	End        uint64 `json:"end"`
	ID         uint64 `json:"id,omitempty"`
	Floor      uint64 `json:"floor,omitempty"`
	Err        string `json:"err,omitempty"`
	Pre        uint64 `json:"pre,omitempty"`
	Post       uint64 `json:"post,omitempty"`
	FloorAfter uint64 `json:"floorAfter,omitempty"`
	isNext     bool
	isFloor    bool
	kind       int
}

// verifC30OffGen draws the distance k from a uint64 boundary: 0, 1, a few,
// within one millisecond worth of id space, anything up to 2^62.
func verifC30OffGen() *rapid.Generator[uint64] {
	return rapid.OneOf(
		rapid.Just(uint64(0)),
		rapid.Just(uint64(1)),
		rapid.Uint64Range(2, 64),
		rapid.Uint64Range(65, 1<<22),
		rapid.Uint64Range(1<<22, 1<<62),
	)
}

func verifC30OpGen() *rapid.Generator[verifC30Op] {
	return rapid.Custom(func(t *rapid.T) verifC30Op {
		w := rapid.IntRange(0, 99).Draw(t, "w")
		switch {
		case w < 66:
			return verifC30Op{Kind: verifC30OpNext}
		case w < 70:
			return verifC30Op{Kind: verifC30OpYield}
		}
		// 50% the fences of the original design, 20% fences inside the
		// allocator's current millisecond, 30% uint64 boundary fences
		var k int
		switch c := rapid.IntRange(0, 99).Draw(t, "floorClass"); {
		case c < 50:
			k = rapid.IntRange(verifC30OpFloorZero, verifC30OpFloorFarFuture).Draw(t, "floorKind")
		case c < 70:
			k = verifC30OpFloorSameMs
		default:
			k = rapid.IntRange(verifC30OpFloorInt63Edge, verifC30OpFloorTopRandom).Draw(t, "boundaryKind")
		}
		p := 0
		switch k {
		case verifC30OpFloorInt63Edge, verifC30OpFloorTopBit, verifC30OpFloorMaxU64:
			return verifC30Op{Kind: k, Off: verifC30OffGen().Draw(t, "k")}
		case verifC30OpFloorTopShaped:
			return verifC30Op{Kind: k, Param: rapid.IntRange(0, 4).Draw(t, "base")}
		case verifC30OpFloorTopRandom:
			return verifC30Op{Kind: k, Off: rapid.Uint64().Draw(t, "bits") &^ verifC30Top}
		case verifC30OpFloorSameMs:
			return verifC30Op{Kind: k,
				Param:   rapid.SampledFrom([]int{0, 0, 0, 0, 1, -1}).Draw(t, "dms"),
				NodeRel: rapid.IntRange(-2, 2).Draw(t, "nodeRel"),
				StepRel: rapid.IntRange(-2, 2).Draw(t, "stepRel"),
				Off:     rapid.Uint64Range(1, 40).Draw(t, "dstep")}
		case verifC30OpFloorPast:
			p = rapid.IntRange(1, 5000).Draw(t, "ms")
		case verifC30OpFloorNearStep:
			p = rapid.IntRange(1, 40).Draw(t, "steps")
		case verifC30OpFloorNearMs:
			p = rapid.IntRange(1, 3).Draw(t, "ms")
		case verifC30OpFloorFarFuture:
			p = rapid.IntRange(1, 1000).Draw(t, "hours")
		}
		return verifC30Op{Kind: k, Param: p}
	})
}

func verifC30Resolve(op verifC30Op, nodeID, ownFirst, ownLast, shared, probe uint64) uint64 {
	switch op.Kind {
	case verifC30OpFloorInt63Edge:
		return verifC30Top - 1 - op.Off
	case verifC30OpFloorTopBit:
		return verifC30Top + op.Off
	case verifC30OpFloorMaxU64:
		return ^uint64(0) - op.Off
	case verifC30OpFloorTopRandom:
		return verifC30Top | op.Off
	case verifC30OpFloorTopShaped:
		base := probe
		switch op.Param {
		case 0:
			base = ownLast
		case 1:
			base = ownFirst
		case 2:
			base = shared
		case 4:
			if d := uint64(1000) << 22; ownLast > d {
				base = ownLast - d
			}
		}
		if base == 0 {
			base = probe
		}
		return verifC30Top | base
	case verifC30OpFloorSameMs:
		ms := probe >> 22
		switch {
		case op.Param > 0:
			ms++
		case op.Param < 0 && ms > 0:
			ms--
		}
		node := nodeID
		switch op.NodeRel {
		case -2:
			node = 0
		case -1:
			if node > 0 {
				node--
			}
		case 1:
			if node < 1023 {
				node++
			}
		case 2:
			node = 1023
		}
		step := probe & 0xfff
		switch op.StepRel {
		case -2:
			step = 0
		case -1:
			if step > op.Off {
				step -= op.Off
			} else {
				step = 0
			}
		case 1:
			if step += op.Off; step > 0xfff {
				step = 0xfff
			}
		case 2:
			step = 0xfff
		}
		return ms<<22 | node<<12 | step
	case verifC30OpFloorZero:
		return 0
	case verifC30OpFloorOwnLast:
		return ownLast
	case verifC30OpFloorOwnFirst:
		return ownFirst
	case verifC30OpFloorShared:
		return shared
	case verifC30OpFloorPast:
		d := uint64(op.Param) << 22
		if ownLast > d {
			return ownLast - d
		}
		return 0
	case verifC30OpFloorNearStep:
		return shared + uint64(op.Param)
	case verifC30OpFloorNearMs:
		return shared + uint64(op.Param)<<22
	case verifC30OpFloorFarFuture:
		return shared + uint64(op.Param)*3600_000<<22
	}
	return 0
}

// Measured fence classes (from the resolved fence value, the probes taken on
// both sides of the call and the call's result — not from the drawn kind).
const (
	verifC30ClsInt63Max = iota
	verifC30ClsInt63Below
	verifC30ClsTop
	verifC30ClsTopPlus
	verifC30ClsMaxU64
	verifC30ClsMaxU64Below
	verifC30ClsTopShaped
	verifC30ClsTopRandom
	verifC30ClsTopRefused
	verifC30ClsMsNodeHigher
	verifC30ClsMsNodeLower
	verifC30ClsMsStepHigher
	verifC30ClsMsStepLowerEq
	verifC30ClsMsRefused
	verifC30ClsMsAccepted
	verifC30ClsN
)

var verifC30ClsNames = [verifC30ClsN]string{
	"fence = 1<<63-1",
	"fence = 1<<63-1-k (k>0)",
	"fence = 1<<63",
	"fence = 1<<63+k (k>0)",
	"fence = MaxUint64",
	"fence = MaxUint64-k (k>0)",
	"fence = top bit | Snowflake-shaped id",
	"fence = top bit | generated low bits",
	"fence >= 1<<63 refused",
	"fence in the call's millisecond: node bits above the allocator's",
	"fence in the call's millisecond: node bits below the allocator's",
	"fence in the call's millisecond: own node, step above the pre-call probe",
	"fence in the call's millisecond: own node, step at/below the pre-call probe",
	"fence in the call's millisecond refused",
	"fence in the call's millisecond accepted",
}

var verifC30ClsKeys = [verifC30ClsN]string{
	"fence_calls_int63max", "fence_calls_int63max_minus_k", "fence_calls_2p63", "fence_calls_2p63_plus_k",
	"fence_calls_maxu64", "fence_calls_maxu64_minus_k", "fence_calls_topbit_shaped", "fence_calls_topbit_random",
	"fence_calls_topbit_refused",
	"fence_calls_same_ms_node_higher", "fence_calls_same_ms_node_lower", "fence_calls_same_ms_step_higher", "fence_calls_same_ms_step_lower_eq",
	"fence_calls_same_ms_refused", "fence_calls_same_ms_accepted",
}

type verifC30Cls [verifC30ClsN]int

func (c *verifC30Cls) add(kind int, nodeID, f, pre, post uint64, refused bool) {
	switch {
	case f == verifC30Top-1:
		c[verifC30ClsInt63Max]++
	case kind == verifC30OpFloorInt63Edge:
		c[verifC30ClsInt63Below]++
	case f == verifC30Top:
		c[verifC30ClsTop]++
	case f == ^uint64(0):
		c[verifC30ClsMaxU64]++
	case kind == verifC30OpFloorMaxU64:
		c[verifC30ClsMaxU64Below]++
	case kind == verifC30OpFloorTopBit:
		c[verifC30ClsTopPlus]++
	case kind == verifC30OpFloorTopShaped:
		c[verifC30ClsTopShaped]++
	case kind == verifC30OpFloorTopRandom:
		c[verifC30ClsTopRandom]++
	}
	if f >= verifC30Top && refused {
		c[verifC30ClsTopRefused]++
	}
	// the whole call took place inside one millisecond and the fence carries it
	if f>>22 == pre>>22 && f>>22 == post>>22 {
		switch fn := (f >> 12) & 0x3ff; {
		case fn > nodeID:
			c[verifC30ClsMsNodeHigher]++
		case fn < nodeID:
			c[verifC30ClsMsNodeLower]++
		case f&0xfff > pre&0xfff:
			c[verifC30ClsMsStepHigher]++
		default:
			c[verifC30ClsMsStepLowerEq]++
		}
		if refused {
			c[verifC30ClsMsRefused]++
		} else {
			c[verifC30ClsMsAccepted]++
		}
	}
}

func (c *verifC30Cls) report(col *kit.Collector, k *kit.Case, prefix string) {
	for i, n := range c {
		k.LabelIf(n > 0, prefix+verifC30ClsNames[i])
		if n > 0 {
			col.AddExtra(verifC30ClsKeys[i], int64(n))
		}
	}
}

var verifC30Saved atomic.Int32

func verifC30Knob(name string, def int) int {
	if v := os.Getenv(name); v != "" {
		if n, err := strconv.Atoi(v); err == nil {
			return n
		}
	}
	return def
}

func verifC30Fail(rt *rapid.T, test string, plan any, recs []verifC30Rec, format string, args ...any) {
	msg := fmt.Sprintf(format, args...)
	if verifC30Saved.Add(1) <= 3 {
		b, _ := json.MarshalIndent(map[string]any{"violation": msg, "plan": plan, "history": recs}, "", " ")
		p := kit.SaveReplay("C30", test, "json", b)
		rt.Logf("history saved to %s", p)
	}
	rt.Fatalf("VERIF-VIOLATION C30: %s", msg)
}

// TestVerifC30Concurrent runs generated scripts of Next/SetFloor on real
// goroutines against one allocator and judges the recorded history after all
// goroutines have been joined.
func TestVerifC30Concurrent(t *testing.T) {
	col := kit.For(t, "C30")
	var tGen, tRun, tJudge time.Duration
	defer func() {
		if os.Getenv("VERIF_C30_TIMING") != "" {
			t.Logf("timing: gen=%v run=%v judge=%v", tGen, tRun, tJudge)
		}
	}()
	kit.Check(t, "C30", func(rt *rapid.T, k *kit.Case) {
		t0 := time.Now()
		nodeID := rapid.SampledFrom([]uint64{0, 1, 7, 512, 1023}).Draw(rt, "node")
		var g int
		switch rapid.IntRange(0, 3).Draw(rt, "gClass") {
		case 0:
			g = rapid.IntRange(2, 4).Draw(rt, "g")
		case 1:
			g = rapid.IntRange(5, 16).Draw(rt, "g")
		default:
			g = rapid.IntRange(8, 32).Draw(rt, "g")
		}
		scripts := make([][]verifC30Op, g)
		for i := range scripts {
			// a generated pattern, repeated: long enough for goroutines to really run side by side
			n := rapid.IntRange(4, 48).Draw(rt, "n")
			pat := rapid.SliceOfN(verifC30OpGen(), n, n).Draw(rt, fmt.Sprintf("script%d", i))
			rep := rapid.IntRange(1, verifC30Knob("VERIF_C30_REP", 10)).Draw(rt, "rep")
			for r := 0; r < rep; r++ {
				scripts[i] = append(scripts[i], pat...)
			}
		}
		warm := rapid.IntRange(0, 3).Draw(rt, "warm")

		tGen += time.Since(t0)
		t0 = time.Now()
		ids, err := newNodeMessageIDs(nodeID)
		if err != nil {
			rt.Fatalf("newNodeMessageIDs(%d): %v", nodeID, err)
		}
		var clock atomic.Uint64
		var shared atomic.Uint64
		var warmRecs []verifC30Rec
		for i := 0; i < warm; i++ {
			s := clock.Add(1)
			id := ids.Next()
			e := clock.Add(1)
			shared.Store(id)
			warmRecs = append(warmRecs, verifC30Rec{G: -1, I: i, Kind: "next", Start: s, End: e, ID: id, isNext: true})
		}
		if warm == 0 {
			shared.Store(uint64(ids.node.Generate()))
		}

		recs := make([][]verifC30Rec, g)
		start := make(chan struct{})
		early := make(chan string, 1)
		var ready atomic.Int32
		var wg sync.WaitGroup
		for gi := 0; gi < g; gi++ {
			gi := gi
			wg.Add(1)
			go func() {
				defer wg.Done()
				out := make([]verifC30Rec, 0, len(scripts[gi]))
				var ownFirst, ownLast uint64
				<-start
				// spin barrier: begin together once every goroutine is running
				ready.Add(1)
				for spins := 0; int(ready.Load()) < g && spins < verifC30Knob("VERIF_C30_SPINS", 20000); spins++ {
					runtime.Gosched()
				}
				for i, op := range scripts[gi] {
					switch op.Kind {
					case verifC30OpNext:
						s := clock.Add(1)
						id := ids.Next()
						e := clock.Add(1)
						if ownFirst == 0 {
							ownFirst = id
						}
						ownLast = id
						shared.Store(id)
						out = append(out, verifC30Rec{G: gi, I: i, Kind: "next", Start: s, End: e, ID: id, isNext: true})
					case verifC30OpYield:
						runtime.Gosched()
					default:
						pre := uint64(ids.node.Generate())
						f := verifC30Resolve(op, nodeID, ownFirst, ownLast, shared.Load(), pre)
						s := clock.Add(1)
						err := ids.SetFloor(f)
						e := clock.Add(1)
						after := ids.floor.Load()
						post := uint64(ids.node.Generate())
						r := verifC30Rec{G: gi, I: i, Kind: verifC30OpNames[op.Kind], Start: s, End: e, Floor: f, Pre: pre, Post: post, FloorAfter: after, isFloor: true, kind: op.Kind}
						if err != nil {
							r.Err = err.Error()
						}
						if after >= post || (err == nil && f >= post) {
							// already a violation by itself; report it even if other
							// goroutines can no longer be joined (a synthesised future
							// floor makes Next spin until the clock catches up)
							select {
							case early <- fmt.Sprintf("SetFloor(%d) by g%d#%d returned %v; floor afterwards %d; next natural id %d: the floor/fence is not below the natural generator", f, gi, i, err, after, post):
							default:
							}
						}
						out = append(out, r)
					}
				}
				recs[gi] = out
			}()
		}
		close(start)
		done := make(chan struct{})
		go func() { wg.Wait(); close(done) }()
		select {
		case <-done:
		case msg := <-early:
			select {
			case <-done: // everything came back: judge the full history below
			case <-time.After(2 * time.Second):
				verifC30Fail(rt, "TestVerifC30Concurrent", map[string]any{"node": nodeID, "g": g, "warm": warm, "scripts": scripts}, nil, "%s (history incomplete: goroutines still inside the allocator)", msg)
			}
		case <-time.After(60 * time.Second):
			// Not a verdict: the allocator did not come back (a spinning
			// Next would look like this). Goroutines are leaked on purpose.
			col.Inconclusive("goroutines not joined within 60s")
			rt.Skip("inconclusive: join deadline")
		}
		endFloor := ids.floor.Load()
		endProbe := uint64(ids.node.Generate())
		tRun += time.Since(t0)
		t0 = time.Now()
		defer func() { tJudge += time.Since(t0) }()

		all := append([]verifC30Rec(nil), warmRecs...)
		for _, r := range recs {
			all = append(all, r...)
		}
		plan := map[string]any{"node": nodeID, "g": g, "warm": warm, "scripts": scripts}
		fail := func(format string, args ...any) {
			verifC30Fail(rt, "TestVerifC30Concurrent", plan, all, format, args...)
		}

		// --- per-call facts of SetFloor
		var nexts, floors []*verifC30Rec
		for ri := range all {
			r := &all[ri]
			if r.isNext {
				nexts = append(nexts, r)
			} else if r.isFloor {
				floors = append(floors, r)
			}
		}
		var nilFloors, rejFloors, raisedNil, nearAccepted, nearRejected int
		var cls verifC30Cls
		for _, r := range floors {
			cls.add(r.kind, nodeID, r.Floor, r.Pre, r.Post, r.Err != "")
			if r.FloorAfter >= r.Post {
				fail("floor %d observed after SetFloor(%d) (g%d#%d) is not below the next naturally generated id %d: a future value was synthesised", r.FloorAfter, r.Floor, r.G, r.I, r.Post)
			}
			if r.Err == "" {
				nilFloors++
				if r.Floor >= r.Post {
					fail("SetFloor(%d) returned nil (g%d#%d) although the natural clock had not passed it: id generated after the call = %d", r.Floor, r.G, r.I, r.Post)
				}
				if r.Floor >= r.Pre {
					raisedNil++
				}
				if r.Kind == "floorNearStep" || r.Kind == "floorNearMs" {
					nearAccepted++
				}
			} else {
				rejFloors++
				if r.Floor <= r.Pre {
					fail("SetFloor(%d) was rejected (%s) (g%d#%d) although the allocator had already generated %d above it", r.Floor, r.Err, r.G, r.I, r.Pre)
				}
				if !strings.Contains(r.Err, "has not advanced above restored message ID fence") {
					fail("SetFloor(%d) returned an undocumented error %q", r.Floor, r.Err)
				}
				if r.Kind == "floorNearStep" || r.Kind == "floorNearMs" {
					nearRejected++
				}
			}
		}

		// --- uniqueness
		seen := make(map[uint64]*verifC30Rec, len(nexts))
		for _, r := range nexts {
			if r.ID == 0 {
				fail("Next returned 0 (g%d#%d)", r.G, r.I)
			}
			if int64(r.ID) < 0 || (r.ID>>12)&0x3ff != nodeID {
				fail("Next returned %d whose node field is %d, want %d", r.ID, (r.ID>>12)&0x3ff, nodeID)
			}
			if o, dup := seen[r.ID]; dup {
				fail("id %d issued twice: g%d#%d and g%d#%d", r.ID, o.G, o.I, r.G, r.I)
			}
			seen[r.ID] = r
		}
		// --- per goroutine strictly increasing
		for gi, rs := range recs {
			var last uint64
			for ri := range rs {
				r := &rs[ri]
				if !r.isNext {
					continue
				}
				if r.ID <= last {
					fail("goroutine %d got %d after %d", gi, r.ID, last)
				}
				last = r.ID
			}
		}
		// --- real-time order: X returned before Y was called ⇒ id(X) < id(Y)
		byEnd := append([]*verifC30Rec(nil), nexts...)
		sort.Slice(byEnd, func(i, j int) bool { return byEnd[i].End < byEnd[j].End })
		prefMax := make([]*verifC30Rec, len(byEnd))
		for i, r := range byEnd {
			if i == 0 || r.ID > prefMax[i-1].ID {
				prefMax[i] = r
			} else {
				prefMax[i] = prefMax[i-1]
			}
		}
		for _, y := range nexts {
			n := sort.Search(len(byEnd), func(i int) bool { return byEnd[i].End >= y.Start })
			if n > 0 && prefMax[n-1].ID >= y.ID {
				x := prefMax[n-1]
				fail("Next g%d#%d returned %d before Next g%d#%d was called, which returned %d (not increasing)", x.G, x.I, x.ID, y.G, y.I, y.ID)
			}
		}
		// --- floor: SetFloor(f)==nil returned before Y was called ⇒ id(Y) > f
		var okFloors []*verifC30Rec
		for _, r := range floors {
			if r.Err == "" {
				okFloors = append(okFloors, r)
			}
		}
		sort.Slice(okFloors, func(i, j int) bool { return okFloors[i].End < okFloors[j].End })
		fMax := make([]*verifC30Rec, len(okFloors))
		for i, r := range okFloors {
			if i == 0 || r.Floor > fMax[i-1].Floor {
				fMax[i] = r
			} else {
				fMax[i] = fMax[i-1]
			}
		}
		fenced := 0
		for _, y := range nexts {
			n := sort.Search(len(okFloors), func(i int) bool { return okFloors[i].End >= y.Start })
			if n > 0 {
				fenced++
				if fMax[n-1].Floor >= y.ID {
					x := fMax[n-1]
					fail("SetFloor(%d) returned nil (g%d#%d) before Next g%d#%d was called, which returned %d <= floor", x.Floor, x.G, x.I, y.G, y.I, y.ID)
				}
			}
		}
		// --- quiescent structure
		var maxID uint64
		for _, r := range nexts {
			if r.ID > maxID {
				maxID = r.ID
			}
		}
		if endFloor < maxID {
			fail("at quiescence floor=%d is below the greatest id handed out %d", endFloor, maxID)
		}
		if endFloor >= endProbe {
			fail("at quiescence floor=%d is not below the next natural id %d", endFloor, endProbe)
		}

		// --- measured overlap (different goroutines inside Next/SetFloor at once)
		calls := append(append([]*verifC30Rec(nil), nexts...), floors...)
		sort.Slice(calls, func(i, j int) bool { return calls[i].Start < calls[j].Start })
		overlapNext, overlapFloor := false, false
		ends := make([]uint64, g+1) // greatest end stamp per goroutine so far (index g = warm-up)
		for _, c := range calls {
			ci := c.G
			if ci < 0 {
				ci = g
			}
			for oi, e := range ends {
				if oi != ci && e > c.Start {
					if c.isNext {
						overlapNext = true
					} else {
						overlapFloor = true
					}
					break
				}
			}
			if c.End > ends[ci] {
				ends[ci] = c.End
			}
		}

		k.Key(nodeID, warm, g)
		for _, sc := range scripts {
			kb := make([]byte, 0, 3*len(sc)+1)
			for _, op := range sc {
				kb = append(kb, byte(op.Kind), byte(op.Param), byte(op.Param>>8), byte(op.NodeRel), byte(op.StepRel))
				kb = binary.LittleEndian.AppendUint64(kb, op.Off)
			}
			k.Key(kb)
		}
		k.SetNonTrivial(overlapNext && len(floors) > 0 && len(nexts) >= 2)
		k.LabelIf(overlapNext, "Next calls of different goroutines overlapped")
		k.LabelIf(overlapFloor, "SetFloor overlapped another goroutine's call")
		k.LabelIf(nilFloors > 0, "SetFloor accepted")
		k.LabelIf(rejFloors > 0, "SetFloor rejected (fence not passed)")
		k.LabelIf(raisedNil > 0, "SetFloor accepted a fence at/above the pre-call probe (raced the clock)")
		k.LabelIf(nearAccepted > 0, "near-future fence accepted")
		k.LabelIf(nearRejected > 0, "near-future fence rejected")
		k.LabelIf(fenced > 0, "Next called after an accepted fence")
		k.LabelIf(g >= 8, "goroutines >= 8")
		cls.report(col, k, "")
		col.AddExtra("next_calls", int64(len(nexts)))
		col.AddExtra("setfloor_calls", int64(len(floors)))
		k.Sample(func() any {
			return fmt.Sprintf("node=%d goroutines=%d next=%d setfloor=%d (nil %d, rejected %d) overlap=%v", nodeID, g, len(nexts), len(floors), nilFloors, rejFloors, overlapNext)
		})
	})
}

// TestVerifC30Sequential is the sequential model-based sub-check: one caller,
// exact model of the floor after every step.
func TestVerifC30Sequential(t *testing.T) {
	col := kit.For(t, "C30")
	kit.Check(t, "C30", func(rt *rapid.T, k *kit.Case) {
		nodeID := rapid.SampledFrom([]uint64{0, 3, 1023}).Draw(rt, "node")
		// uniform length (rapid's own slice lengths are heavily biased to short)
		nOps := rapid.IntRange(1, 60).Draw(rt, "nOps")
		ops := rapid.SliceOfN(verifC30OpGen(), nOps, nOps).Draw(rt, "ops")
		ids, err := newNodeMessageIDs(nodeID)
		if err != nil {
			rt.Fatalf("newNodeMessageIDs: %v", err)
		}
		var hist []verifC30Rec
		fail := func(format string, args ...any) {
			verifC30Fail(rt, "TestVerifC30Sequential", ops, hist, format, args...)
		}
		var first, last, maxFence uint64
		var accepted, rejected, raised int
		var cls verifC30Cls
		issued := map[uint64]bool{}
		// model: the floor value
		model := uint64(0)
		for i, op := range ops {
			switch op.Kind {
			case verifC30OpNext:
				id := ids.Next()
				hist = append(hist, verifC30Rec{I: i, Kind: "next", ID: id})
				if id <= model {
					fail("Next returned %d, not above the floor %d", id, model)
				}
				if id <= maxFence {
					fail("Next returned %d at or below accepted fence %d", id, maxFence)
				}
				if id <= last || issued[id] {
					fail("Next returned %d after %d", id, last)
				}
				if got := ids.floor.Load(); got != id {
					fail("floor=%d after Next returned %d", got, id)
				}
				issued[id] = true
				model = id
				if first == 0 {
					first = id
				}
				last = id
			case verifC30OpYield:
				if op.Param%2 == 0 {
					time.Sleep(time.Millisecond)
				}
			default:
				base := last
				if base == 0 {
					base = uint64(ids.node.Generate())
				}
				pre := uint64(ids.node.Generate())
				f := verifC30Resolve(op, nodeID, first, last, base, pre)
				err := ids.SetFloor(f)
				after := ids.floor.Load()
				post := uint64(ids.node.Generate())
				r := verifC30Rec{I: i, Kind: verifC30OpNames[op.Kind], Floor: f, Pre: pre, Post: post, FloorAfter: after}
				if err != nil {
					r.Err = err.Error()
				}
				hist = append(hist, r)
				cls.add(op.Kind, nodeID, f, pre, post, err != nil)
				switch {
				case err != nil:
					rejected++
					if f <= pre {
						fail("SetFloor(%d) rejected although %d was already generated", f, pre)
					}
					if after != model {
						fail("rejected SetFloor(%d) changed the floor from %d to %d", f, model, after)
					}
				case f <= model:
					accepted++
					if after != model {
						fail("SetFloor(%d) at or below the floor %d changed it to %d", f, model, after)
					}
				default:
					accepted++
					raised++
					if f >= post {
						fail("SetFloor(%d) accepted although the clock has not passed it (next natural id %d)", f, post)
					}
					if !(after > f && after > pre && after < post) {
						fail("SetFloor(%d) accepted but floor=%d is not a natural id in (%d,%d) above the fence", f, after, pre, post)
					}
					model = after
				}
				if err == nil && f > maxFence {
					maxFence = f
				}
			}
		}
		k.Key(fmt.Sprintf("%d|%v", nodeID, ops))
		k.SetNonTrivial(len(issued) >= 2 && accepted+rejected > 0)
		k.LabelIf(accepted > 0, "seq: fence accepted")
		k.LabelIf(raised > 0, "seq: fence raised the floor")
		k.LabelIf(rejected > 0, "seq: fence rejected")
		cls.report(col, k, "seq: ")
		k.Sample(func() any {
			return fmt.Sprintf("sequential ops=%d ids=%d accepted=%d raised=%d rejected=%d", len(ops), len(issued), accepted, raised, rejected)
		})
	})
}
