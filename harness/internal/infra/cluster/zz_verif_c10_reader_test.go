package cluster

// C10, layer 3 — client message sync end to end on one node:
// ChannelMessageReader -> channels.Service.ReadCommittedBatch (local leader)
// -> readLocalCommitted -> store (memory store or MessageDB adapter), over
// generated logs with one-shot sync (barrier) records sprinkled in, an
// uncommitted tail above the durable HW, a slot-authoritative and a locally
// adopted retention boundary and a partly trimmed prefix. Every pull mode
// with generated bounds: no returned message is a barrier record, above the
// committed watermark, at or below the retention boundary, below the
// membership floor or outside the requested range; pages are ascending runs of
// ordinary visible messages that do not skip one.

import (
	"bytes"
	"context"
	"fmt"
	"strings"
	"testing"

	"github.com/WuKongIM/WuKongIM/internal/usecase/message"
	ch "github.com/WuKongIM/WuKongIM/pkg/channel"
	channelstore "github.com/WuKongIM/WuKongIM/pkg/channel/store"
	channeltransport "github.com/WuKongIM/WuKongIM/pkg/channel/transport"
	clusterchannels "github.com/WuKongIM/WuKongIM/pkg/cluster/channels"
	"pgregory.net/rapid"
	"verif.local/kit"
)

// verifC10Runtime is an inert channel runtime: the read path never calls it.
type verifC10Runtime struct{}

func (verifC10Runtime) ApplyMeta(ch.Meta) error { return nil }
func (verifC10Runtime) Append(context.Context, ch.AppendRequest) (ch.AppendResult, error) {
	return ch.AppendResult{}, ch.ErrNotReady
}
func (verifC10Runtime) AppendBatch(context.Context, ch.AppendBatchRequest) (ch.AppendBatchResult, error) {
	return ch.AppendBatchResult{}, ch.ErrNotReady
}
func (verifC10Runtime) Tick(context.Context) error { return nil }
func (verifC10Runtime) Close() error               { return nil }
func (verifC10Runtime) HandlePull(context.Context, channeltransport.PullRequest) (channeltransport.PullResponse, error) {
	return channeltransport.PullResponse{}, ch.ErrNotReady
}
func (verifC10Runtime) HandleAck(context.Context, channeltransport.AckRequest) error { return nil }
func (verifC10Runtime) HandlePullHint(context.Context, channeltransport.PullHintRequest) error {
	return nil
}
func (verifC10Runtime) HandleNotify(context.Context, channeltransport.NotifyRequest) error {
	return nil
}

type verifC10Node struct{ svc *clusterchannels.Service }

func (n verifC10Node) ReadChannelCommitted(ctx context.Context, id ch.ChannelID, req channelstore.ReadCommittedRequest) (channelstore.ReadCommittedResult, error) {
	res, err := n.svc.ReadCommittedBatch(ctx, []clusterchannels.CommittedRead{{ChannelID: id, Request: req}})
	if err != nil {
		return channelstore.ReadCommittedResult{}, err
	}
	return res[0].Read, res[0].Err
}

func (n verifC10Node) ReadChannelCommittedBatch(ctx context.Context, reads []clusterchannels.CommittedRead) ([]clusterchannels.CommittedReadResult, error) {
	return n.svc.ReadCommittedBatch(ctx, reads)
}

type verifC10Chan struct {
	id        ch.ChannelID
	rows      []ch.Record // present rows
	leo, hw   uint64
	local     uint64 // locally adopted boundary
	slot      uint64 // slot-authoritative boundary (channel runtime meta)
	minISR    int
	committed uint64
	floor     uint64
}

func verifC10BuildChan(rt *rapid.T, nextID *uint64, id ch.ChannelID, cs channelstore.ChannelStore) *verifC10Chan {
	ctx := context.Background()
	c := &verifC10Chan{id: id}
	n := rapid.IntRange(0, 36).Draw(rt, "rows")
	soRun := 0
	for len(c.rows) < n {
		k := min(rapid.IntRange(1, 6).Draw(rt, "batch"), n-len(c.rows))
		recs := make([]ch.Record, k)
		for i := range recs {
			*nextID++
			so := rapid.IntRange(0, 4).Draw(rt, "syncOnce") == 0
			if soRun > 0 {
				so = true
				soRun--
			} else if rapid.IntRange(0, 30).Draw(rt, "syncOnceRun") == 0 {
				soRun = rapid.IntRange(2, 12).Draw(rt, "runLen")
			}
			p := kit.Bytes(48).Draw(rt, "payload")
			recs[i] = ch.Record{ID: *nextID, FromUID: rapid.SampledFrom([]string{"", "u1", "u2"}).Draw(rt, "uid"),
				ClientMsgNo: fmt.Sprintf("n%d", *nextID), Setting: uint8(*nextID % 7), ServerTimestampMS: 1 + int64(*nextID%1000), SyncOnce: so, Payload: p, SizeBytes: len(p)}
		}
		if _, err := cs.AppendLeader(ctx, channelstore.AppendLeaderRequest{Records: recs}); err != nil {
			rt.Fatalf("VERIF-MACHINERY seed append: %v", err)
		}
		for _, r := range recs {
			c.leo++
			r.Index = c.leo
			c.rows = append(c.rows, r)
		}
	}
	c.minISR = rapid.IntRange(1, 3).Draw(rt, "minISR")
	if c.leo > 0 {
		c.hw = uint64(rapid.IntRange(0, int(c.leo)).Draw(rt, "hw"))
		if rapid.IntRange(0, 2).Draw(rt, "hwAtEnd") == 0 {
			c.hw = c.leo
		}
		if err := cs.StoreCheckpoint(ctx, ch.Checkpoint{HW: c.hw}); err != nil {
			rt.Fatalf("VERIF-MACHINERY checkpoint: %v", err)
		}
		if rapid.IntRange(0, 2).Draw(rt, "slotRetention") == 0 {
			c.slot = uint64(rapid.IntRange(1, int(c.leo)).Draw(rt, "slotBoundary"))
		}
		if rapid.IntRange(0, 2).Draw(rt, "localRetention") == 0 {
			c.local = uint64(rapid.IntRange(1, int(c.leo)).Draw(rt, "localBoundary"))
			if _, err := cs.AdoptRetentionBoundary(ctx, c.local, "committed"); err != nil {
				rt.Fatalf("VERIF-MACHINERY adopt: %v", err)
			}
			if lim := min(c.local, c.hw); lim > 0 {
				if trim := uint64(rapid.IntRange(0, int(lim)).Draw(rt, "trimThrough")); trim > 0 {
					if _, err := cs.TrimMessagesThrough(ctx, trim, channelstore.RetentionTrimOptions{}); err != nil {
						rt.Fatalf("VERIF-MACHINERY trim: %v", err)
					}
					for len(c.rows) > 0 && c.rows[0].Index <= trim {
						c.rows = c.rows[1:]
					}
				}
			}
		}
	}
	c.committed = c.hw
	if c.minISR <= 1 {
		c.committed = c.leo
	}
	c.floor = max(c.slot, c.local)
	return c
}

// ordinaryVisible: the messages a client may see for this query, ascending.
func (c *verifC10Chan) ordinaryVisible(q message.ChannelMessageQuery) []ch.Record {
	var out []ch.Record
	for _, r := range c.rows {
		s := r.Index
		if r.SyncOnce || s > c.committed || s <= c.floor || s < q.MinSeq {
			continue
		}
		latest := q.StartSeq == 0 && q.EndSeq == 0
		switch {
		case latest:
		case q.PullMode == message.PullModeUp:
			if s < q.StartSeq || (q.EndSeq > 0 && s >= q.EndSeq) {
				continue
			}
		default: // down
			if (q.StartSeq > 0 && s > q.StartSeq) || (q.EndSeq > 0 && s <= q.EndSeq) {
				continue
			}
		}
		out = append(out, r)
	}
	return out
}

func (c *verifC10Chan) rowAt(seq uint64) *ch.Record {
	for i := range c.rows {
		if c.rows[i].Index == seq {
			return &c.rows[i]
		}
	}
	return nil
}

func verifC10CheckPage(rt *rapid.T, c *verifC10Chan, q message.ChannelMessageQuery, page message.ChannelMessagePage) {
	what := fmt.Sprintf("SyncMessages(%+v) [hw=%d leo=%d minISR=%d slot boundary=%d local boundary=%d]", q, c.hw, c.leo, c.minISR, c.slot, c.local)
	seqs := make([]uint64, len(page.Messages))
	for i, m := range page.Messages {
		seqs[i] = m.MessageSeq
	}
	limit := q.Limit
	if limit <= 0 {
		limit = 1
	}
	if len(page.Messages) > limit {
		rt.Fatalf("%s returned %d messages, limit %d", what, len(page.Messages), limit)
	}
	vis := c.ordinaryVisible(q)
	pos := map[uint64]int{}
	for i, r := range vis {
		pos[r.Index] = i
	}
	for i, m := range page.Messages {
		row := c.rowAt(m.MessageSeq)
		switch {
		case row == nil:
			rt.Fatalf("%s returned seq %d which is not a stored row; page %v", what, m.MessageSeq, seqs)
		case row.SyncOnce:
			rt.Fatalf("%s returned the one-shot sync record at seq %d as an ordinary message; page %v", what, m.MessageSeq, seqs)
		case m.MessageSeq > c.committed:
			rt.Fatalf("%s returned seq %d above the committed watermark %d; page %v", what, m.MessageSeq, c.committed, seqs)
		case m.MessageSeq <= c.floor:
			rt.Fatalf("%s returned seq %d at or below the retention boundary %d; page %v", what, m.MessageSeq, c.floor, seqs)
		case m.MessageSeq < q.MinSeq:
			rt.Fatalf("%s returned seq %d below the membership floor %d; page %v", what, m.MessageSeq, q.MinSeq, seqs)
		}
		p, ok := pos[m.MessageSeq]
		if !ok {
			rt.Fatalf("%s returned seq %d outside the requested range; page %v", what, m.MessageSeq, seqs)
		}
		if i > 0 && pos[page.Messages[i-1].MessageSeq]+1 != p {
			rt.Fatalf("%s page %v is not an ascending run of the ordinary visible messages %v", what, seqs, verifC10Idx(vis))
		}
		if m.MessageID != row.ID || m.FromUID != row.FromUID || m.ClientMsgNo != row.ClientMsgNo || m.Setting != row.Setting ||
			m.ChannelID != c.id.ID || m.ChannelType != c.id.Type || !bytes.Equal(m.Payload, row.Payload) {
			rt.Fatalf("%s message at seq %d = %+v, stored row %+v", what, m.MessageSeq, m, *row)
		}
	}
	if len(page.Messages) > 0 && len(vis) > 0 {
		latest := q.StartSeq == 0 && q.EndSeq == 0
		if q.PullMode == message.PullModeUp && !latest {
			if page.Messages[0].MessageSeq != vis[0].Index {
				rt.Fatalf("%s skipped the first visible message %d; page %v", what, vis[0].Index, seqs)
			}
		} else if page.Messages[len(page.Messages)-1].MessageSeq != vis[len(vis)-1].Index {
			rt.Fatalf("%s skipped the newest visible message %d; page %v", what, vis[len(vis)-1].Index, seqs)
		}
	}
}

func verifC10Idx(rs []ch.Record) []uint64 {
	out := make([]uint64, len(rs))
	for i := range rs {
		out[i] = rs[i].Index
	}
	return out
}

func TestVerifC10MessageReader(t *testing.T) {
	dir, cleanup := kit.TempDir()
	dbf := channelstore.NewMessageDBFactory(dir)
	t.Cleanup(func() {
		_ = dbf.Close()
		cleanup()
	})
	var nextID uint64 = 20_000_000
	caseNo := 0
	kit.Check(t, "C10", func(rt *rapid.T, k *kit.Case) {
		caseNo++
		ctx := context.Background()
		useDB := rapid.Bool().Draw(rt, "messageDB")
		var factory channelstore.Factory = channelstore.NewMemoryFactory()
		if useDB {
			factory = dbf
		}
		nch := rapid.IntRange(1, 2).Draw(rt, "channels")
		var chans []*verifC10Chan
		var metas []ch.Meta
		for i := 0; i < nch; i++ {
			id := ch.ChannelID{ID: fmt.Sprintf("vc10r-%d-%d-%d", kit.Seed()%1000, caseNo, i), Type: 2}
			cs, err := factory.ChannelStore(ch.ChannelKeyForID(id), id)
			if err != nil {
				rt.Fatalf("VERIF-MACHINERY ChannelStore: %v", err)
			}
			c := verifC10BuildChan(rt, &nextID, id, cs)
			_ = cs.Close()
			if !useDB && c.committed == 0 && c.leo > 0 {
				// see layer 1b: the in-memory double reads FromSeq=0/MaxSeq=0 as
				// unbounded; not a production store, keep the watermark positive
				c.minISR = 1
				c.committed = c.leo
			}
			chans = append(chans, c)
			metas = append(metas, ch.Meta{ID: id, Epoch: 1, LeaderEpoch: 1, Leader: 1, Replicas: []ch.NodeID{1, 2, 3}, ISR: []ch.NodeID{1, 2, 3},
				MinISR: c.minISR, RetentionThroughSeq: c.slot, Status: ch.StatusActive})
		}
		svc, err := clusterchannels.NewService(clusterchannels.Config{Runtime: verifC10Runtime{}, LocalNode: 1,
			MetaSource: clusterchannels.NewStaticMetaSource(metas), Store: factory})
		if err != nil {
			rt.Fatalf("VERIF-MACHINERY NewService: %v", err)
		}
		reader := NewChannelMessageReader(verifC10Node{svc: svc})

		nq := rapid.IntRange(1, 5).Draw(rt, "queries")
		queries := make([]message.ChannelMessageQuery, nq)
		owners := make([]*verifC10Chan, nq)
		var descr []string
		insideReverse, sawBarrierInRange, uncommitted := false, false, false
		for i := range queries {
			c := chans[rapid.IntRange(0, nch-1).Draw(rt, "ch")]
			hi := int(c.leo) + 2
			q := message.ChannelMessageQuery{ChannelID: message.ChannelID{ID: c.id.ID, Type: c.id.Type},
				Limit: rapid.IntRange(0, 8).Draw(rt, "limit"), MinSeq: 1}
			if rapid.IntRange(0, 2).Draw(rt, "hasMin") == 0 {
				q.MinSeq = uint64(rapid.IntRange(1, hi).Draw(rt, "minSeq"))
			}
			if rapid.Bool().Draw(rt, "up") {
				q.PullMode = message.PullModeUp
			}
			switch rapid.IntRange(0, 3).Draw(rt, "bounds") {
			case 0: // latest page
			case 1:
				q.StartSeq = uint64(rapid.IntRange(1, hi).Draw(rt, "start"))
			case 2:
				q.EndSeq = uint64(rapid.IntRange(1, hi).Draw(rt, "end"))
			default:
				q.StartSeq = uint64(rapid.IntRange(1, hi).Draw(rt, "start"))
				q.EndSeq = uint64(rapid.IntRange(1, hi).Draw(rt, "end"))
			}
			if q.PullMode == message.PullModeUp && q.MinSeq > q.StartSeq && (q.StartSeq != 0 || q.EndSeq != 0) {
				q.StartSeq = q.MinSeq // as the sync usecase does
			}
			queries[i], owners[i] = q, c
			descr = append(descr, fmt.Sprintf("%+v", q))
			page, err := reader.SyncMessages(ctx, q)
			if err != nil {
				rt.Fatalf("SyncMessages(%+v): %v", q, err)
			}
			verifC10CheckPage(rt, c, q, page)
			reverse := q.PullMode == message.PullModeDown || (q.StartSeq == 0 && q.EndSeq == 0)
			if f := max(c.floor+1, q.MinSeq); reverse && len(c.rows) > 1 && f > c.rows[0].Index && f <= c.rows[len(c.rows)-1].Index {
				insideReverse = true
			}
			for _, r := range c.rows {
				if r.SyncOnce && r.Index <= c.committed && r.Index > c.floor {
					sawBarrierInRange = true
				}
			}
			if c.committed < c.leo {
				uncommitted = true
			}
		}
		results, err := reader.SyncMessagesBatch(ctx, queries)
		if err != nil || len(results) != len(queries) {
			rt.Fatalf("SyncMessagesBatch: %d results err=%v", len(results), err)
		}
		for i, res := range results {
			if res.Err != nil {
				rt.Fatalf("SyncMessagesBatch item %d (%+v): %v", i, queries[i], res.Err)
			}
			verifC10CheckPage(rt, owners[i], queries[i], res.Page)
		}
		k.Key("reader", useDB, strings.Join(descr, ";"), len(chans[0].rows), chans[0].hw, chans[0].floor)
		k.SetNonTrivial(insideReverse)
		k.LabelIf(insideReverse, "reader: down / latest pull with the visibility floor strictly inside the stored range (non-trivial)")
		k.LabelIf(sawBarrierInRange, "reader: one-shot sync records inside the committed visible range")
		k.LabelIf(uncommitted, "reader: uncommitted tail above the watermark")
		k.LabelIf(useDB, "reader: MessageDB adapter")
		k.Sample(func() any {
			c := chans[0]
			return fmt.Sprintf("reader rows=%v hw=%d leo=%d minISR=%d slot=%d local=%d queries=%s", verifC10Idx(c.rows), c.hw, c.leo, c.minISR, c.slot, c.local, strings.Join(descr, " ; "))
		})
	})
}
