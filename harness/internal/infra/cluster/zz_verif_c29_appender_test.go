package cluster

// C29 — the adapter between the channelappend runtime and the cluster append
// surface (anchor internal/infra/cluster/appender.go). The channelappend
// harness supplies its own appender port, so this adapter is exercised here:
// generated batches go through the real ChannelAppender into a recording node
// that answers with generated per-item results or a batch error.
//
// Oracle (written independently of the adapter):
//   - the cluster request carries every message, in order, with every field the
//     two message types share (compared by field name through reflection, so a
//     field dropped from the conversion is seen without listing fields here),
//     the fences, commit mode, the allocator proof and the payload flag;
//     payloads are copies;
//   - the result has one item per node item, in the node's order, with ids,
//     sequences and the echoed message unchanged (results stay aligned with the
//     batch), nil errors stay nil;
//   - every error (per item or batch) is classified into exactly the
//     channelappend class its cause belongs to and still wraps the cause.

import (
	"context"
	"errors"
	"fmt"
	"reflect"
	"strings"
	"testing"

	"github.com/WuKongIM/WuKongIM/internal/contracts/channelappend"
	ch "github.com/WuKongIM/WuKongIM/pkg/channel"
	"pgregory.net/rapid"
	"verif.local/kit"
)

type verifC29Node struct {
	got   []ch.AppendBatchRequest
	reply func(ch.AppendBatchRequest) (ch.AppendBatchResult, error)
}

func (n *verifC29Node) AppendChannelBatch(_ context.Context, req ch.AppendBatchRequest) (ch.AppendBatchResult, error) {
	n.got = append(n.got, req)
	return n.reply(req)
}

type verifC29Cause struct {
	name  string
	err   error
	class error // channelappend class; nil = passes through unchanged
}

func verifC29Causes() []verifC29Cause {
	wrap := func(e error) error { return fmt.Errorf("node 3 refused the batch: %w", e) }
	text := func(e error) error { return errors.New("rpc: remote error: " + e.Error()) }
	base := []verifC29Cause{
		{"not-leader", ch.ErrNotLeader, channelappend.ErrNotLeader},
		{"stale-meta", ch.ErrStaleMeta, channelappend.ErrStaleRoute},
		{"not-replica", ch.ErrNotReplica, channelappend.ErrStaleRoute},
		{"channel-not-found", ch.ErrChannelNotFound, channelappend.ErrChannelNotFound},
		{"backpressured", ch.ErrBackpressured, channelappend.ErrBackpressured},
		{"not-ready", ch.ErrNotReady, channelappend.ErrRouteNotReady},
		{"write-fenced", ch.ErrWriteFenced, channelappend.ErrRouteNotReady},
	}
	out := []verifC29Cause{
		{"canceled", context.Canceled, nil},
		{"deadline", context.DeadlineExceeded, nil},
		{"unknown", errors.New("disk on fire"), channelappend.ErrAppendFailed},
		{"log-conflict", ch.ErrLogConflict, channelappend.ErrAppendFailed},
	}
	for _, b := range base {
		out = append(out, b,
			verifC29Cause{b.name + "/wrapped", wrap(b.err), b.class},
			verifC29Cause{b.name + "/text", text(b.err), b.class})
	}
	return out
}

var verifC29Classes = []error{
	channelappend.ErrNotLeader, channelappend.ErrStaleRoute, channelappend.ErrChannelNotFound,
	channelappend.ErrBackpressured, channelappend.ErrRouteNotReady, channelappend.ErrAppendFailed,
}

func verifC29CheckErr(fail func(string, ...any), where string, cause verifC29Cause, got error) {
	if got == nil {
		fail("%s: cause %s (%v) was mapped to a nil error", where, cause.name, cause.err)
		return
	}
	if cause.class == nil {
		if !errors.Is(got, cause.err) {
			fail("%s: context error %v did not pass through: %v", where, cause.err, got)
		}
		for _, c := range verifC29Classes {
			if errors.Is(got, c) {
				fail("%s: context error %v was classified as %v", where, cause.err, c)
			}
		}
		return
	}
	for _, c := range verifC29Classes {
		if is := errors.Is(got, c); is != (c == cause.class) {
			fail("%s: cause %s (%v) mapped to %v: errors.Is(%v)=%v, want class %v only", where, cause.name, cause.err, got, c, is, cause.class)
		}
	}
	if !errors.Is(got, cause.err) && !strings.Contains(got.Error(), cause.err.Error()) {
		fail("%s: mapped error %v lost its cause %v", where, got, cause.err)
	}
}

// verifC29SharedFields compares every exported field the two struct values
// share by name and type.
func verifC29SharedFields(a, b any) (diff string) {
	va, vb := reflect.ValueOf(a), reflect.ValueOf(b)
	for i := 0; i < va.NumField(); i++ {
		f := va.Type().Field(i)
		fb, ok := vb.Type().FieldByName(f.Name)
		if !ok || fb.Type != f.Type {
			continue
		}
		x, y := va.Field(i).Interface(), vb.FieldByName(f.Name).Interface()
		if xb, isBytes := x.([]byte); isBytes {
			yb := y.([]byte)
			if string(xb) != string(yb) {
				return fmt.Sprintf("%s: %q vs %q", f.Name, xb, yb)
			}
			continue
		}
		if !reflect.DeepEqual(x, y) {
			return fmt.Sprintf("%s: %v vs %v", f.Name, x, y)
		}
	}
	return ""
}

func verifC29Message(rt *rapid.T, i int) channelappend.Message {
	return channelappend.Message{
		MessageID:         kit.Uint64Edge().Draw(rt, fmt.Sprintf("id%d", i)),
		MessageSeq:        kit.Uint64Edge().Draw(rt, fmt.Sprintf("seq%d", i)),
		ChannelID:         rapid.SampledFrom([]string{"g1", "u1@u2", "", "频道"}).Draw(rt, "cid"),
		ChannelType:       uint8(rapid.IntRange(0, 255).Draw(rt, "ctype")),
		Setting:           uint8(rapid.IntRange(0, 255).Draw(rt, "setting")),
		Topic:             rapid.SampledFrom([]string{"", "t"}).Draw(rt, "topic"),
		Expire:            uint32(rapid.IntRange(0, 3).Draw(rt, "expire")),
		FromUID:           rapid.SampledFrom([]string{"u1", "u2", "", "系统"}).Draw(rt, "from"),
		ClientMsgNo:       rapid.SampledFrom([]string{"n1", "n2", "", "n-长"}).Draw(rt, "cno"),
		TraceID:           rapid.SampledFrom([]string{"", "tr-1"}).Draw(rt, "trace"),
		ChannelKey:        rapid.SampledFrom([]string{"", "2:g1"}).Draw(rt, "ckey"),
		Payload:           kit.Bytes(24).Draw(rt, "payload"),
		SyncOnce:          rapid.Bool().Draw(rt, "syncOnce"),
		ServerTimestampMS: rapid.Int64Range(-1, 1<<40).Draw(rt, "ts"),
	}
}

func TestVerifC29Appender(t *testing.T) {
	causes := verifC29Causes()
	kit.Check(t, "C29", func(rt *rapid.T, k *kit.Case) {
		fail := func(f string, a ...any) { rt.Helper(); rt.Fatalf(f, a...) }
		n := rapid.IntRange(0, 8).Draw(rt, "messages")
		req := channelappend.AppendBatchRequest{
			ChannelID:                 channelappend.ChannelID{ID: rapid.SampledFrom([]string{"g1", "u1@u2"}).Draw(rt, "target"), Type: uint8(rapid.IntRange(1, 5).Draw(rt, "targetType"))},
			ExpectedEpoch:             kit.Uint64Edge().Draw(rt, "epoch"),
			ExpectedLeaderEpoch:       kit.Uint64Edge().Draw(rt, "leaderEpoch"),
			TraceID:                   rapid.SampledFrom([]string{"", "tr-b"}).Draw(rt, "btrace"),
			ChannelKey:                rapid.SampledFrom([]string{"", "2:g1"}).Draw(rt, "bkey"),
			Attempt:                   rapid.IntRange(-1, 4).Draw(rt, "attempt"),
			CommitMode:                channelappend.CommitMode(rapid.IntRange(0, 3).Draw(rt, "commitMode")),
			OmitResultPayload:         rapid.Bool().Draw(rt, "omitPayload"),
			ServerAllocatedMessageIDs: rapid.Bool().Draw(rt, "serverIDs"),
		}
		for i := 0; i < n; i++ {
			req.Messages = append(req.Messages, verifC29Message(rt, i))
		}
		sent := req.Clone()

		// the node's answer
		batchFail := rapid.IntRange(0, 5).Draw(rt, "batchFails") == 0
		var batchCause verifC29Cause
		if batchFail {
			batchCause = causes[rapid.IntRange(0, len(causes)-1).Draw(rt, "batchCause")]
		}
		// the node may answer with fewer or more items than asked (a remote
		// peer's answer is data): the adapter forwards what it got, in order
		items := n
		if rapid.IntRange(0, 9).Draw(rt, "odd") == 0 {
			items = rapid.IntRange(0, n+2).Draw(rt, "items")
		}
		var nodeItems []ch.AppendBatchItemResult
		var itemCauses []*verifC29Cause
		sawOK, sawErr := false, false
		for i := 0; i < items; i++ {
			it := ch.AppendBatchItemResult{
				MessageID:  kit.Uint64Edge().Draw(rt, "rid"),
				MessageSeq: kit.Uint64Edge().Draw(rt, "rseq"),
			}
			if i < n {
				m := req.Messages[i]
				it.Message = ch.Message{MessageID: it.MessageID, MessageSeq: it.MessageSeq, ChannelID: m.ChannelID, ChannelType: m.ChannelType, Setting: m.Setting,
					FromUID: m.FromUID, ClientMsgNo: m.ClientMsgNo, ServerTimestampMS: m.ServerTimestampMS + 1, TraceID: m.TraceID, ChannelKey: m.ChannelKey, SyncOnce: m.SyncOnce}
				if !req.OmitResultPayload {
					it.Message.Payload = append([]byte(nil), m.Payload...)
				}
			}
			if rapid.IntRange(0, 2).Draw(rt, "itemFails") == 0 {
				c := causes[rapid.IntRange(0, len(causes)-1).Draw(rt, "itemCause")]
				it.Err = c.err
				itemCauses = append(itemCauses, &c)
				sawErr = true
			} else {
				itemCauses = append(itemCauses, nil)
				sawOK = true
			}
			nodeItems = append(nodeItems, it)
		}
		node := &verifC29Node{reply: func(ch.AppendBatchRequest) (ch.AppendBatchResult, error) {
			if batchFail {
				return ch.AppendBatchResult{}, batchCause.err
			}
			return ch.AppendBatchResult{Items: nodeItems}, nil
		}}

		res, err := NewChannelAppender(node).AppendBatch(context.Background(), req)

		// ---- the request the node saw
		if len(node.got) != 1 {
			fail("the node was called %d times for one batch", len(node.got))
		}
		got := node.got[0]
		if got.ChannelID.ID != sent.ChannelID.ID || got.ChannelID.Type != sent.ChannelID.Type {
			fail("target channel changed: %+v -> %+v", sent.ChannelID, got.ChannelID)
		}
		if got.ExpectedChannelEpoch != sent.ExpectedEpoch || got.ExpectedLeaderEpoch != sent.ExpectedLeaderEpoch {
			fail("fences changed: (%d,%d) -> (%d,%d)", sent.ExpectedEpoch, sent.ExpectedLeaderEpoch, got.ExpectedChannelEpoch, got.ExpectedLeaderEpoch)
		}
		if got.ServerAllocatedMessageIDs != sent.ServerAllocatedMessageIDs {
			fail("allocator proof changed: %v -> %v", sent.ServerAllocatedMessageIDs, got.ServerAllocatedMessageIDs)
		}
		if got.OmitResultPayload != sent.OmitResultPayload || got.TraceID != sent.TraceID || got.ChannelKey != sent.ChannelKey {
			fail("batch attributes changed: %+v -> %+v", sent, got)
		}
		wantMode := ch.CommitModeQuorum
		if sent.CommitMode == channelappend.CommitModeLocal {
			wantMode = ch.CommitModeLocal
		}
		if got.CommitMode != wantMode {
			fail("commit mode %d became %d, want %d", sent.CommitMode, got.CommitMode, wantMode)
		}
		if wantAttempt := sent.Attempt; (wantAttempt <= 0 && got.Attempt != 1) || (wantAttempt > 0 && got.Attempt != wantAttempt) {
			fail("attempt %d became %d", sent.Attempt, got.Attempt)
		}
		if len(got.Messages) != n {
			fail("%d messages became %d", n, len(got.Messages))
		}
		for i := range got.Messages {
			if d := verifC29SharedFields(sent.Messages[i], got.Messages[i]); d != "" {
				fail("message %d of %d changed on the way to the node: %s", i, n, d)
			}
			if len(req.Messages[i].Payload) > 0 && len(got.Messages[i].Payload) > 0 && &req.Messages[i].Payload[0] == &got.Messages[i].Payload[0] {
				fail("message %d: the node's payload aliases the caller's buffer", i)
			}
		}

		// ---- the answer
		if batchFail {
			verifC29CheckErr(fail, "batch error", batchCause, err)
			if len(res.Items) != 0 {
				fail("a failed batch returned %d items", len(res.Items))
			}
		} else {
			if err != nil {
				fail("batch succeeded at the node but the adapter returned %v", err)
			}
			if len(res.Items) != len(nodeItems) {
				fail("the node answered %d items, the adapter returned %d", len(nodeItems), len(res.Items))
			}
			for i, it := range res.Items {
				want := nodeItems[i]
				if it.MessageID != want.MessageID || it.MessageSeq != want.MessageSeq {
					fail("item %d: (id %d, seq %d) became (id %d, seq %d): results are no longer aligned with the batch", i, want.MessageID, want.MessageSeq, it.MessageID, it.MessageSeq)
				}
				if d := verifC29SharedFields(want.Message, it.Message); d != "" {
					fail("item %d: echoed message changed: %s", i, d)
				}
				if itemCauses[i] == nil {
					if it.Err != nil {
						fail("item %d: success became error %v", i, it.Err)
					}
				} else {
					verifC29CheckErr(fail, fmt.Sprintf("item %d", i), *itemCauses[i], it.Err)
				}
			}
		}
		k.Key(fmt.Sprintf("%+v|%v|%v|%d", sent, batchFail, batchCause.name, items))
		for i, c := range itemCauses {
			if c != nil {
				k.Key(fmt.Sprintf("%d:%s", i, c.name))
			}
		}
		k.SetNonTrivial(!batchFail && len(nodeItems) >= 2 && sawOK && sawErr)
		k.LabelIf(batchFail, "batch error")
		k.LabelIf(!batchFail && sawErr && sawOK, "mixed per-item results")
		k.LabelIf(items != n, "node answered a different number of items")
		k.LabelIf(sent.ServerAllocatedMessageIDs, "allocator proof set")
		k.Sample(func() any {
			return fmt.Sprintf("n=%d items=%d batchFail=%v(%s) mode=%d attempt=%d", n, items, batchFail, batchCause.name, sent.CommitMode, sent.Attempt)
		})
	})
}
